#!/bin/bash
# confirm_mutant.sh <src-dir-with patch.diff,tests/demo_mutant.rs,NOTES.md> <seeded-id> <property>
# Confirms in a fresh scratch worktree: patch applies on /repo HEAD, suite passes with it, demo fails with / passes without.
src=$1; id=$2; prop=$3
wt=/tmp/cw/$id
rm -rf $wt; mkdir -p /tmp/cw; git -C /repo worktree add -q --detach $wt HEAD || exit 2
cp $src/tests/demo_mutant.rs $wt/tests/demo_mutant.rs
cd $wt; export CARGO_TARGET_DIR=$wt/target
r0=$(cargo test --offline --test demo_mutant 2>&1 | grep -E "^test result" | tail -1)
git apply $src/patch.diff || { echo "$id: PATCH DOES NOT APPLY"; git -C /repo worktree remove --force $wt; exit 1; }
b=$(cargo build --offline 2>&1 | tail -1)
r1=$(cargo test --offline --test tests 2>&1 | grep -E "^test result" | tail -1)
r2=$(cargo test --offline --test demo_mutant 2>&1 | grep -E "^test result" | tail -1)
echo "$id: original demo: $r0"; echo "$id: build: $b"; echo "$id: suite with patch: $r1"; echo "$id: demo with patch: $r2"
ok=1; echo "$r0" | grep -q "ok\." || ok=0; echo "$r1" | grep -q "236 passed; 0 failed" || ok=0; echo "$r2" | grep -q FAILED || ok=0
if [ $ok = 1 ]; then
  d=/verif/seeded/$id; mkdir -p $d; cp $src/patch.diff $d/patch.diff; cp $src/tests/demo_mutant.rs $d/demo_mutant.rs; cp $src/NOTES.md $d/NOTES.md 2>/dev/null
  python3 - "$id" "$prop" "$r0" "$r1" "$r2" <<'PY'
import json,sys
id,prop,r0,r1,r2=sys.argv[1:6]
json.dump({"id":id,"kind":"change written by an independent sub-agent given only the property text","breaks_property":prop,
 "needs_to_manifest":"see NOTES.md (written by the sub-agent)","confirmed":{"demo_on_original":r0,"suite_with_patch":r1,"demo_with_patch":r2},
 "ran":"fresh worktree of /repo HEAD under /tmp/cw: cargo test --test demo_mutant (original) ; git apply patch.diff ; cargo build ; cargo test --test tests ; cargo test --test demo_mutant"},
 open('/verif/seeded/%s/meta.json'%id,'w'),indent=1)
PY
  echo "$id: CONFIRMED -> /verif/seeded/$id"
else
  echo "$id: NOT CONFIRMED"
fi
cd /; git -C /repo worktree remove --force $wt
