//! Harness driver: `harness list <PROP> <tier>` / `harness run <PROP> <instance> <tier> <seed>` /
//! `harness concrete <PROP> <instance> <float:0|1> k=v ...`
mod util;
mod props;
mod selfcheck;

use std::collections::BTreeMap;
use symcore::*;
use util::*;

/// a replay confirms a candidate when it fails the same obligation, or an obligation of the same group (`group :: detail`)
fn label_matches(failed: &str, cand: &str) -> bool {
    if failed == cand { return true; }
    match (failed.split_once(" :: "), cand.split_once(" :: ")) { (Some((a, _)), Some((b, _))) => a == b, _ => false }
}

fn config(tier: &str, seed: u64) -> Config {
    let mut c = Config::default();
    c.seed = seed;
    if tier == "thorough" {
        c.decide_timeout_ms = 20000;
        c.prove_timeout_ms = 120000;
        c.max_paths = 200000;
    } else {
        c.decide_timeout_ms = 5000;
        c.prove_timeout_ms = 10000;
        c.max_paths = 20000;
    }
    if let Ok(v) = std::env::var("VERIF_PROVE_MS") { if let Ok(n) = v.parse() { c.prove_timeout_ms = n; } }
    if let Ok(v) = std::env::var("VERIF_DECIDE_MS") { if let Ok(n) = v.parse() { c.decide_timeout_ms = n; } }
    c
}

fn main() {
    let args: Vec<String> = std::env::args().collect();
    install_panic_hook();
    if args.len() < 2 { eprintln!("usage"); std::process::exit(2); }
    match args[1].as_str() {
        "list" => {
            for i in props::instances(&args[2], &args[3], args.get(4).and_then(|s| s.parse().ok()).unwrap_or(0)) { println!("{}", i); }
        }
        "run" => {
            let (prop, inst, tier) = (args[2].clone(), args[3].clone(), args[4].clone());
            let seed: u64 = args.get(5).and_then(|s| s.parse().ok()).unwrap_or(0);
            let t0 = std::time::Instant::now();
            let mut cfg = config(&tier, seed);
            props::configure(&prop, &inst, &mut cfg);
            let mut body = || props::body(&prop, &inst);
            let rep = explore(cfg.clone(), &mut body);
            // replay candidates concretely (exact rationals first, f64 as fallback)
            let mut viol = Vec::new();
            let mut seen: BTreeMap<String, usize> = BTreeMap::new();
            for c in &rep.candidates {
                let k = seen.entry(c.label.clone()).or_insert(0);
                if *k >= 3 { continue; }
                *k += 1;
                let mut model_used = c.model.clone();
                let (mut confirmed, mut mode, mut errs, mut other);
                if c.float {
                    // bit-precise model from the QF_FP query: replay in f64 semantics; if this very input
                    // recovers, search the neighbourhood for an input on which the failure manifests end to end
                    let cf = run_concrete(cfg.clone(), true, &c.model, &mut body);
                    confirmed = cf.failures.iter().any(|l| label_matches(l, &c.label));
                    mode = "f64";
                    errs = cf.errors.clone();
                    other = cf.failures.clone();
                    if !confirmed {
                        let names: Vec<String> = c.model.keys().cloned().collect();
                        let mut st: u64 = 0x9E3779B97F4A7C15 ^ (cfg.seed.wrapping_mul(0x2545F4914F6CDD1D)) | 1;
                        let mut next = || { st ^= st << 13; st ^= st >> 7; st ^= st << 17; st };
                        let (lo, hi) = cfg.float_search;
                        let t_search = std::time::Instant::now();
                        for _trial in 0..cfg.float_search_trials {
                            if t_search.elapsed().as_secs() > 120 { break; }
                            let mut m = BTreeMap::new();
                            for n in &names {
                                let u = (next() >> 11) as f64 / (1u64 << 53) as f64;
                                let mag = (lo.ln() + u * (hi.ln() - lo.ln())).exp();
                                let x = if next() & 1 == 0 { mag } else { -mag };
                                m.insert(n.clone(), format!("bits:{:016x}", x.to_bits()));
                            }
                            let ct = run_concrete(cfg.clone(), true, &m, &mut body);
                            if ct.failures.iter().any(|l| label_matches(l, &c.label)) { confirmed = true; model_used = m; mode = "f64 (found by search around the solver model)"; break; }
                        }
                    }
                } else {
                let cr = run_concrete(cfg.clone(), false, &c.model, &mut body);
                confirmed = cr.failures.iter().any(|l| label_matches(l, &c.label));
                mode = "exact-rational";
                errs = cr.errors.clone();
                other = cr.failures.clone();
                if !confirmed {
                    let cf = run_concrete(cfg.clone(), true, &c.model, &mut body);
                    if cf.failures.iter().any(|l| label_matches(l, &c.label)) { confirmed = true; mode = "f64"; }
                    errs.extend(cf.errors);
                    other.extend(cf.failures);
                }
                if !confirmed {
                    // The solver's model may interpret uninterpreted/stubbed functions in a way the real functions do not
                    // follow.  Look for an input on which the real code fails the same obligation (seeded; a hit is a
                    // genuine, replayed counterexample, a miss leaves the candidate unconfirmed = inconclusive).
                    let names: Vec<String> = c.model.keys().filter(|k| !k.contains('(')).cloned().collect();
                    // (a) the sign orbit of the solver's model: effects that hinge on the sign of a zero or on which side of a
                    //     branch cut a rounded value falls are invisible over the reals but flip under sign changes of the
                    //     inputs, which keep the model on the same algebraic variety in the common (even/odd) cases
                    {
                        let nz: Vec<&String> = names.iter().filter(|k| { let v = &c.model[*k]; v != "0" && !v.starts_with('~') }).collect();
                        let combos: u64 = if nz.len() <= 10 { 1u64 << nz.len() } else { 1024 };
                        let mut st: u64 = 0x2545F4914F6CDD1D ^ cfg.seed | 1;
                        'orbit: for scale in ["", "2*", "3*"] {
                            for mask in 1..combos {
                                let bits = if nz.len() <= 10 { mask } else { st ^= st << 13; st ^= st >> 7; st ^= st << 17; st };
                                let mut m = c.model.clone();
                                for (j, k) in nz.iter().enumerate() {
                                    let v = c.model[*k].clone();
                                    let neg = (bits >> (j % 64)) & 1 == 1;
                                    let v = if neg { if let Some(r) = v.strip_prefix('-') { r.to_string() } else { format!("-{}", v) } } else { v };
                                    let v = match (scale, v.split_once('/')) { ("", _) => v, (sc, Some((n, d))) => { let f: i64 = sc[..1].parse().unwrap(); match n.parse::<i64>() { Ok(n) => format!("{}/{}", n * f, d), _ => v } } (sc, None) => { let f: f64 = sc[..1].parse().unwrap(); match v.parse::<f64>() { Ok(x) => format!("{}", x * f), _ => v } } };
                                    m.insert((*k).clone(), v);
                                }
                                let ct = run_concrete(cfg.clone(), true, &m, &mut body);
                                if ct.failures.iter().any(|l| label_matches(l, &c.label)) { confirmed = true; model_used = m; mode = "f64 (sign/scale orbit of the solver model: the failure hinges on rounding or the sign of a zero)"; break 'orbit; }
                            }
                        }
                    }
                    let t_search = std::time::Instant::now();
                    let mut st: u64 = 0xD1B54A32D192ED03 ^ (cfg.seed.wrapping_mul(0x9E3779B97F4A7C15)) | 1;
                    let mut next = || { st ^= st << 13; st ^= st >> 7; st ^= st << 17; st };
                    let (lo, hi) = cfg.real_search;
                    for trial in 0..300u32 {
                        if confirmed || names.is_empty() || t_search.elapsed().as_secs() > 30 { break; }
                        let mut m = BTreeMap::new();
                        for n in &names {
                            let steps = 32.0;
                            let k = (next() >> 40) % (steps as u64 + 1);
                            let x = lo + (hi - lo) * (k as f64) / steps; // dyadic grid: exact in rationals
                            if n.starts_with("tol") { m.insert(n.clone(), format!("{}", 0.5f64.powi(1 + (k % 14) as i32))); continue; }
                            m.insert(n.clone(), if trial % 2 == 0 { format!("{}", x) } else { format!("{}", (x * 4.0).round() / 4.0) });
                        }
                        for float in [false, true] {
                            let ct = run_concrete(cfg.clone(), float, &m, &mut body);
                            if ct.failures.iter().any(|l| label_matches(l, &c.label)) { confirmed = true; model_used = m.clone(); mode = if float { "f64 (input found by search after an unreproduced solver model)" } else { "exact-rational (input found by search after an unreproduced solver model)" }; break; }
                        }
                        if confirmed { break; }
                    }
                }
                }
                other.truncate(6);
                let model = model_used.iter().map(|(k, v)| format!("{}:{}", jstr(k), jstr(v))).collect::<Vec<_>>().join(",");
                viol.push(format!("{{\"label\":{},\"model\":{{{}}},\"confirmed\":{},\"mode\":{},\"exact_model\":{},\"replay_errors\":{},\"replay_failures\":{},\"trace\":{}}}",
                    jstr(&c.label), model, confirmed, jstr(mode), c.exact, jlist(&errs), jlist(&other), jstr(&format!("{:?}", c.trace))));
            }
            // undecided obligations: before giving up, look for a concrete input on which the real code fails them
            let mut undecided_left: Vec<String> = Vec::new();
            {
                let mut labels: Vec<String> = rep.undecided.clone();
                labels.sort(); labels.dedup();
                let mut st: u64 = 0xA0761D6478BD642F ^ (cfg.seed.wrapping_mul(0x9E3779B97F4A7C15)) | 1;
                let mut next = || { st ^= st << 13; st ^= st >> 7; st ^= st << 17; st };
                let (lo, hi) = cfg.real_search;
                let mut found: BTreeMap<String, (BTreeMap<String, String>, &str)> = BTreeMap::new();
                if !labels.is_empty() && labels.len() <= 12 {
                    let t_search = std::time::Instant::now();
                    // time-bounded (60 s), at least 200 and at most 20000 trials
                    for trial in 0..20000u32 {
                        if rep.var_names.is_empty() || (trial >= 200 && t_search.elapsed().as_secs() > 60) || t_search.elapsed().as_secs() > 240 { break; }
                        let mut m = BTreeMap::new();
                        for n in &rep.var_names {
                            let k = (next() >> 40) % 33;
                            // tolerances are small positive numbers: draw them as 2^-j so that stopping tests are not trivially met
                            if n.starts_with("tol") { m.insert(n.clone(), format!("{}", (1 + (next() >> 40) % 31) as f64 / 32.0 * 0.5f64.powi((k % 12) as i32))); }
                            else { m.insert(n.clone(), format!("{}", lo + (hi - lo) * (k as f64) / 32.0)); }
                        }
                        for float in [false, true] {
                            let ct = run_concrete(cfg.clone(), float, &m, &mut body);
                            for l in &labels { if !found.contains_key(l) && ct.failures.iter().any(|f| label_matches(f, l)) { found.insert(l.clone(), (m.clone(), if float { "f64 (input found by search for an undecided obligation)" } else { "exact-rational (input found by search for an undecided obligation)" })); } }
                        }
                        if found.len() == labels.len() { break; }
                    }
                }
                for l in &rep.undecided { if !found.contains_key(l) { undecided_left.push(l.clone()); } }
                for (l, (m, mode)) in &found {
                    let model = m.iter().map(|(k, v)| format!("{}:{}", jstr(k), jstr(v))).collect::<Vec<_>>().join(",");
                    viol.push(format!("{{\"label\":{},\"model\":{{{}}},\"confirmed\":true,\"mode\":{},\"exact_model\":true,\"replay_errors\":[],\"replay_failures\":[],\"trace\":\"\"}}", jstr(l), model, jstr(mode)));
                }
            }
            let s = &rep.stats;
            let mut rep_errors = rep.errors.clone();
            if s.controls == 0 || s.controls_ok == 0 { rep_errors.push("vacuity: no path of this instance passed its control obligation".to_string()); }
            println!("{{\"prop\":{},\"instance\":{},\"paths\":{},\"pruned\":{},\"decisions\":{},\"forks\":{},\"obligations\":{},\"syntactic\":{},\"const_eval\":{},\"solver_discharged\":{},\"undecided\":{},\"failed\":{},\"controls\":{},\"controls_ok\":{},\"q_sat\":{},\"q_unsat\":{},\"q_unknown\":{},\"q_memo\":{},\"q_numeric\":{},\"solver_s\":{:.3},\"nontrivial_paths\":{},\"cases\":{},\"truncated\":{},\"wall_s\":{:.3},\"violations\":[{}],\"undecided_labels\":{},\"control_failures\":{},\"errors\":{},\"samples\":{},\"notes\":{},\"sample_smt\":{}}}",
                jstr(&prop), jstr(&inst), s.paths, s.paths_pruned, s.decisions, s.forks, s.obligations, s.discharged_syntactic, s.discharged_concrete_const, s.discharged_solver, s.undecided, s.failed, s.controls, s.controls_ok, s.q_sat, s.q_unsat, s.q_unknown, s.q_memo, s.q_numeric, s.solver_s, s.nontrivial_paths, s.cases, s.truncated, t0.elapsed().as_secs_f64(),
                viol.join(","), jlist(&undecided_left), jlist(&rep.control_failures), jlist(&rep_errors), jlist(&rep.samples), jlist(&rep.notes), jstr(rep.sample_smt.as_deref().unwrap_or("")));
        }
        "concrete" => {
            let (prop, inst) = (args[2].clone(), args[3].clone());
            let float = args[4] == "1";
            let mut m = BTreeMap::new();
            for kv in &args[5..] { if let Some((k, v)) = kv.split_once('=') { m.insert(k.to_string(), v.to_string()); } }
            let mut cfg = config("quick", 0);
            props::configure(&prop, &inst, &mut cfg);
            let mut body = || props::body(&prop, &inst);
            let cr = run_concrete(cfg, float, &m, &mut body);
            println!("{{\"failures\":{},\"errors\":{},\"labels\":{},\"notes\":{},\"undecided\":{}}}", jlist(&cr.failures), jlist(&cr.errors), jlist(&cr.labels), jlist(&cr.notes), jlist(&cr.undecided));
        }
        "selfcheck" => {
            let (n, bad) = selfcheck::run();
            for b in &bad { println!("MISMATCH {}", b); }
            println!("selfcheck: {} comparisons between the real crate at f64 and the derived crate at Sym (concrete f64), {} mismatches", n, bad.len());
            std::process::exit(if bad.is_empty() { 0 } else { 2 });
        }
        _ => { eprintln!("unknown command"); std::process::exit(2); }
    }
}
