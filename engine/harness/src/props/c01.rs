//! C01 - dense direct solvers solve A x = b for every nonsingular system.
use super::*;
use crate::util::*;
use ohsl::{Matrix, Vector};
use symcore::*;

pub fn instances(tier: &str) -> Vec<String> {
    let mut v = Vec::new();
    let nmax = 3;
    for n in 1..=nmax {
        v.push(format!("basic:n={}", n));
        v.push(format!("lu:n={}", n));
    }
    v.push("agree:n=1".into());
    v.push("agree:n=2".into());
    if tier == "thorough" {
        v.push("agree:n=3".into());
        v.push("basic:n=4".into()); // 315 pivot paths, ~2 min
        v.push("lu:n=4".into());
    }
    v
}

fn check_solution(tag: &str, a: &[Vec<Sym>], b: &[Sym], r: Result<Vector<Sym>, Stop>) -> Option<Vector<Sym>> {
    let n = a.len();
    match r {
        Ok(x) => {
            prove(&format!("{}: result has length n", tag), if x.size() == n { B::True } else { B::False });
            if x.size() != n { return None; }
            for i in 0..n {
                let xs: Vec<Sym> = (0..n).map(|j| x[j]).collect();
                prove_eq(&format!("{}: residual row {} is zero", tag, i), dotv(&a[i], &xs), b[i]);
            }
            // partial pivoting by magnitude: every elimination multiplier is bounded by one
            for (site, num, den) in divisions() {
                let f = site_fn(&site);
                if f.ends_with("gauss_with_pivot") || f.ends_with("lu_decomp_in_place") {
                    prove(&format!("{}: multiplier bounded by 1 in {}", tag, f), le(num.abs(), den.abs()));
                }
            }
            Some(x)
        }
        Err(s) => { must_not_stop(&format!("{}: nonsingular system must be solved", tag), &s); None }
    }
}

pub fn body(inst: &str) {
    let (kind, p) = parse_inst(inst);
    let n = geti(&p, "n");
    let a = var_grid("a", n, n);
    let b = var_vec("b", n);
    assume(ne(det(&a), Sym::lit(0.0)));
    let bv = Vector::create(b.clone());
    match kind.as_str() {
        "basic" => {
            let mut m = to_matrix(&a);
            let r = catch(|| m.solve_basic(&bv));
            if let Some(x) = check_solution("solve_basic", &a, &b, r) {
                control("solve_basic control: x[0] is not identically b[0]+1", eq(x[0], b[0] + Sym::lit(1.0)));
            }
        }
        "lu" => {
            let mut m = to_matrix(&a);
            let r = catch(|| m.solve_lu(&bv));
            if let Some(x) = check_solution("solve_lu", &a, &b, r) {
                control("solve_lu control: x[0] is not identically b[0]+1", eq(x[0], b[0] + Sym::lit(1.0)));
            }
        }
        "agree" => {
            let mut m1 = to_matrix(&a);
            let mut m2 = to_matrix(&a);
            let r1 = catch(|| m1.solve_basic(&bv));
            let r2 = catch(|| m2.solve_lu(&bv));
            match (r1, r2) {
                (Ok(x), Ok(y)) => {
                    for i in 0..n { prove_eq(&format!("solve_basic and solve_lu agree on x[{}]", i), x[i], y[i]); }
                    control("agree control", eq(x[0], y[0] + Sym::lit(1.0)));
                }
                (Err(s), _) | (_, Err(s)) => must_not_stop("agree: nonsingular system must be solved", &s),
            }
        }
        _ => panic!("unknown C01 instance {}", inst),
    }
    let _ = Matrix::<Sym>::empty();
}
