//! C01 - dense direct solvers solve A x = b for every nonsingular system.
use super::*;
use crate::util::*;
use ohsl::{Matrix, Vector};
use symcore::*;

pub fn instances(tier: &str) -> Vec<String> {
    let mut v = Vec::new();
    let nmax = 3;
    for n in 1..=nmax {
        v.push(format!("basic:n={}", n));
        v.push(format!("lu:n={}", n));
    }
    for n in 1..=2 { v.push(format!("cbasic:n={}", n)); v.push(format!("clu:n={}", n)); }
    v.push("agree:n=1".into());
    v.push("agree:n=2".into());
    if tier == "thorough" {
        v.push("agree:n=3".into());
        v.push("basic:n=4".into()); // 315 pivot paths, ~2 min
        v.push("lu:n=4".into());
    }
    v
}

fn check_solution(tag: &str, a: &[Vec<Sym>], b: &[Sym], r: Result<Vector<Sym>, Stop>) -> Option<Vector<Sym>> {
    let n = a.len();
    match r {
        Ok(x) => {
            prove(&format!("{}: result has length n", tag), if x.size() == n { B::True } else { B::False });
            if x.size() != n { return None; }
            for i in 0..n {
                let xs: Vec<Sym> = (0..n).map(|j| x[j]).collect();
                prove_eq(&format!("{}: residual row {} is zero", tag, i), dotv(&a[i], &xs), b[i]);
            }
            // partial pivoting by magnitude: every elimination multiplier is bounded by one
            for (site, num, den) in divisions() {
                let f = site_fn(&site);
                if f.ends_with("gauss_with_pivot") || f.ends_with("lu_decomp_in_place") {
                    prove(&format!("{}: multiplier bounded by 1 in {}", tag, f), le(num.abs(), den.abs()));
                }
            }
            Some(x)
        }
        Err(s) => { must_not_stop(&format!("{}: nonsingular system must be solved", tag), &s); None }
    }
}

pub fn body(inst: &str) {
    let (kind, p) = parse_inst(inst);
    let n = geti(&p, "n");
    if kind == "cbasic" || kind == "clu" { return cplx::body(&kind, n); }
    let a = var_grid("a", n, n);
    let b = var_vec("b", n);
    assume(ne(det(&a), Sym::lit(0.0)));
    let bv = Vector::create(b.clone());
    match kind.as_str() {
        "basic" => {
            let mut m = to_matrix(&a);
            let r = catch(|| m.solve_basic(&bv));
            if let Some(x) = check_solution("solve_basic", &a, &b, r) {
                control("solve_basic control: x[0] is not identically b[0]+1", eq(x[0], b[0] + Sym::lit(1.0)));
            }
        }
        "lu" => {
            let mut m = to_matrix(&a);
            let r = catch(|| m.solve_lu(&bv));
            if let Some(x) = check_solution("solve_lu", &a, &b, r) {
                control("solve_lu control: x[0] is not identically b[0]+1", eq(x[0], b[0] + Sym::lit(1.0)));
            }
        }
        "agree" => {
            let mut m1 = to_matrix(&a);
            let mut m2 = to_matrix(&a);
            let r1 = catch(|| m1.solve_basic(&bv));
            let r2 = catch(|| m2.solve_lu(&bv));
            match (r1, r2) {
                (Ok(x), Ok(y)) => {
                    for i in 0..n { prove_eq(&format!("solve_basic and solve_lu agree on x[{}]", i), x[i], y[i]); }
                    control("agree control", eq(x[0], y[0] + Sym::lit(1.0)));
                }
                (Err(s), _) | (_, Err(s)) => must_not_stop("agree: nonsingular system must be solved", &s),
            }
        }
        _ => panic!("unknown C01 instance {}", inst),
    }
    let _ = Matrix::<Sym>::empty();
}

// ---- Complex<f64> elements (derived crate: Signed for Complex is f64-only) ----
pub mod cplx {
    use crate::util::*;
    use ohsl_sym::{Cmplx, Matrix, Vector};
    use symcore::*;

    fn z() -> Sym { Sym::lit(0.0) }
    pub fn cgrid(p: &str, n: usize) -> Vec<Vec<Cmplx>> { (0..n).map(|i| (0..n).map(|j| Cmplx::new(Sym::var(&format!("{}r_{}_{}", p, i, j)), Sym::var(&format!("{}i_{}_{}", p, i, j)))).collect()).collect() }
    pub fn cvec(p: &str, n: usize) -> Vec<Cmplx> { (0..n).map(|i| Cmplx::new(Sym::var(&format!("{}r_{}", p, i)), Sym::var(&format!("{}i_{}", p, i)))).collect() }
    pub fn cdet(a: &[Vec<Cmplx>]) -> Cmplx {
        let n = a.len();
        if n == 1 { return a[0][0]; }
        let mut acc = Cmplx::new(z(), z());
        for j in 0..n {
            let minor: Vec<Vec<Cmplx>> = (1..n).map(|i| (0..n).filter(|&k| k != j).map(|k| a[i][k]).collect()).collect();
            let t = a[0][j] * cdet(&minor);
            if j % 2 == 0 { acc = acc + t; } else { acc = acc - t; }
        }
        acc
    }
    pub fn cmatrix(a: &[Vec<Cmplx>]) -> Matrix<Cmplx> {
        let n = a.len();
        let mut m = Matrix::<Cmplx>::new(n, n, Cmplx::new(z(), z()));
        for i in 0..n { for j in 0..n { m[(i, j)] = a[i][j]; } }
        m
    }

    pub fn body(kind: &str, n: usize) {
        let a = cgrid("a", n);
        let b = cvec("b", n);
        let d = cdet(&a);
        assume(B::or(vec![ne(d.real, z()), ne(d.imag, z())]));
        let bv = Vector::create(b.clone());
        let mut m = cmatrix(&a);
        let r = catch(|| if kind == "cbasic" { m.solve_basic(&bv) } else { m.solve_lu(&bv) });
        match r {
            Ok(x) => {
                prove(&format!("{}: result has length n", kind), if x.size() == n { B::True } else { B::False });
                if x.size() == n {
                    for i in 0..n {
                        let mut acc = Cmplx::new(z(), z());
                        for j in 0..n { acc = acc + a[i][j] * x[j]; }
                        prove(&format!("{}: complex residual row {} (real part)", kind, i), eq(acc.real, b[i].real));
                        prove(&format!("{}: complex residual row {} (imaginary part)", kind, i), eq(acc.imag, b[i].imag));
                    }
                }
            }
            Err(s) => must_not_stop(&format!("{}: nonsingular complex system must be solved", kind), &s),
        }
    }
}
