//! C02 - determinant and inverse agree with exact linear algebra; operand left intact.
use super::*;
use crate::util::*;
use ohsl::Matrix;
use symcore::*;

pub fn instances(tier: &str) -> Vec<String> {
    let mut v = Vec::new();
    for n in 1..=3 {
        v.push(format!("det:n={}", n));
        v.push(format!("inv:n={}", n));
    }
    for n in 1..=2 { v.push(format!("cdet:n={}", n)); }
    v.push("cinv:n=1".into()); // (the two-sided identity for a 2x2 complex inverse stays undecided: nested complex quotients)
    if tier == "thorough" {
        v.push("det:n=4".into());
    }
    v
}

fn unchanged(tag: &str, m: &Matrix<Sym>, a: &[Vec<Sym>]) {
    let n = a.len();
    let mut same = m.rows() == n && m.cols() == n;
    if same {
        for i in 0..n { for j in 0..n { if !m[(i, j)].same(a[i][j]) { same = false; } } }
    }
    prove(&format!("{}: operand matrix is left unchanged", tag), if same { B::True } else { B::False });
}

pub fn body(inst: &str) {
    let (kind, p) = parse_inst(inst);
    let n = geti(&p, "n");
    if kind == "cdet" || kind == "cinv" { return complex_body(&kind, n); }
    let a = var_grid("a", n, n);
    let d_ref = det(&a);
    match kind.as_str() {
        "det" => {
            let m = to_matrix(&a);
            match catch(|| m.determinant()) {
                Ok(d) => {
                    prove_eq("determinant equals the cofactor determinant", d, d_ref);
                    control("determinant control", eq(d, d_ref + Sym::lit(1.0)));
                }
                Err(s) => must_not_stop("determinant of any square matrix must be returned", &s),
            }
            unchanged("determinant", &m, &a);
        }
        "inv" => {
            assume(ne(d_ref, Sym::lit(0.0)));
            let m = to_matrix(&a);
            match catch(|| m.inverse()) {
                Ok(inv) => {
                    let ok = inv.rows() == n && inv.cols() == n;
                    prove("inverse has the shape of the operand", if ok { B::True } else { B::False });
                    if ok {
                        for i in 0..n { for j in 0..n {
                            let mut l = Sym::lit(0.0);
                            let mut r = Sym::lit(0.0);
                            for k in 0..n { l = l + a[i][k] * inv[(k, j)]; r = r + inv[(i, k)] * a[k][j]; }
                            let id = if i == j { Sym::lit(1.0) } else { Sym::lit(0.0) };
                            prove_eq(&format!("(A*inv)[{},{}] = I", i, j), l, id);
                            prove_eq(&format!("(inv*A)[{},{}] = I", i, j), r, id);
                        } }
                        control("inverse control", eq(inv[(0, 0)], a[0][0]));
                    }
                }
                Err(s) => must_not_stop("inverse of a nonsingular matrix must be returned", &s),
            }
            unchanged("inverse", &m, &a);
        }
        _ => panic!("unknown C02 instance"),
    }
}

/// Complex<f64> elements (derived crate)
fn complex_body(kind: &str, n: usize) {
    use super::c01::cplx::{cdet, cgrid, cmatrix};
    use ohsl_sym::Cmplx;
    let z = || Sym::lit(0.0);
    let a = cgrid("a", n);
    let d_ref = cdet(&a);
    let m = cmatrix(&a);
    if kind == "cdet" {
        match catch(|| m.determinant()) {
            Ok(d) => { prove("complex determinant equals the cofactor determinant (real part)", eq(d.real, d_ref.real)); prove("complex determinant equals the cofactor determinant (imaginary part)", eq(d.imag, d_ref.imag)); }
            Err(s) => must_not_stop("determinant of any complex square matrix must be returned", &s),
        }
    } else {
        assume(B::or(vec![ne(d_ref.real, z()), ne(d_ref.imag, z())]));
        match catch(|| m.inverse()) {
            Ok(inv) => {
                let ok = inv.rows() == n && inv.cols() == n;
                prove("complex inverse has the shape of the operand", if ok { B::True } else { B::False });
                if ok { for i in 0..n { for j in 0..n {
                    let mut l = Cmplx::new(z(), z());
                    let mut r = Cmplx::new(z(), z());
                    for k in 0..n { l = l + a[i][k] * inv[(k, j)]; r = r + inv[(i, k)] * a[k][j]; }
                    let id = if i == j { Sym::lit(1.0) } else { z() };
                    prove(&format!("complex (A*inv)[{},{}] = I (real part)", i, j), eq(l.real, id));
                    prove(&format!("complex (A*inv)[{},{}] = I (imaginary part)", i, j), eq(l.imag, z()));
                    prove(&format!("complex (inv*A)[{},{}] = I (real part)", i, j), eq(r.real, id));
                    prove(&format!("complex (inv*A)[{},{}] = I (imaginary part)", i, j), eq(r.imag, z()));
                } } }
            }
            Err(s) => must_not_stop("inverse of a nonsingular complex matrix must be returned", &s),
        }
    }
    let same = m.rows() == n && (0..n).all(|i| (0..n).all(|j| m[(i, j)].real.same(a[i][j].real) && m[(i, j)].imag.same(a[i][j].imag)));
    prove("complex operand is left unchanged", if same { B::True } else { B::False });
}
