//! C03 - dense matrix algebra/editing follow their definitions for every shape and history
//! (one inductive step from an arbitrary state of each shape).
use super::*;
use crate::util::*;
use ohsl::{Matrix, Vector};
use symcore::*;

pub fn instances(tier: &str) -> Vec<String> {
    let mut v = Vec::new();
    let (smax, pmax) = if tier == "thorough" { (8, 5) } else { (3, 3) };
    for r in 0..=smax { for c in 0..=smax { v.push(format!("edit:r={},c={}", r, c)); } }
    for r in 0..=pmax { for k in 0..=pmax { for c in 0..=pmax { v.push(format!("prod:r={},k={},c={}", r, k, c)); } } }
    let nmax = if tier == "thorough" { 4 } else { 3 };
    for r in 0..=nmax { for c in 0..=nmax { v.push(format!("norms:r={},c={}", r, c)); } }
    // element-wise arithmetic is ONE IEEE operation per entry (props/fparith.rs)
    v.push("fp_arith:of=matrix,r=2,c=3".into());
    v
}

fn z() -> Sym { Sym::lit(0.0) }

pub fn body(inst: &str) {
    let (kind, p) = parse_inst(inst);
    match kind.as_str() {
        "edit" => edit(geti(&p, "r"), geti(&p, "c")),
        "prod" => prod(geti(&p, "r"), geti(&p, "k"), geti(&p, "c")),
        "norms" => norms(geti(&p, "r"), geti(&p, "c")),
        _ => panic!("unknown C03 instance"),
    }
}

fn edit(r: usize, c: usize) {
    let a = Model::vars("a", r, c);
    let b = Model::vars("b", r, c);
    let s = Sym::var("s");
    // constructors / accessors
    must("new", || Matrix::<Sym>::new(r, c, s), |m| Model::fill(r, c, s).expect("new", &m));
    must("clone", || a.matrix().clone(), |m| a.expect("clone", &m));
    must("eye", || Matrix::<Sym>::eye(r), |m| Model::from_fn(r, r, |i, j| if i == j { Sym::lit(1.0) } else { z() }).expect("eye", &m));
    must("clear", || { let mut m = a.matrix(); m.clear(); m }, |m| Model::fill(0, 0, z()).expect("clear", &m));
    // element-wise arithmetic, owned and borrowed
    must("&a + &b", || &a.matrix() + &b.matrix(), |m| a.zip(&b, |x, y| x + y).expect("&a + &b", &m));
    must("a + b", || a.matrix() + b.matrix(), |m| a.zip(&b, |x, y| x + y).expect("a + b", &m));
    must("&a - &b", || &a.matrix() - &b.matrix(), |m| a.zip(&b, |x, y| x - y).expect("&a - &b", &m));
    must("a - b", || a.matrix() - b.matrix(), |m| a.zip(&b, |x, y| x - y).expect("a - b", &m));
    must("-&a", || -&a.matrix(), |m| a.map(|x| -x).expect("-&a", &m));
    must("-a", || -a.matrix(), |m| a.map(|x| -x).expect("-a", &m));
    must("&a * s", || &a.matrix() * s, |m| a.map(|x| x * s).expect("&a * s", &m));
    must("a * s", || a.matrix() * s, |m| a.map(|x| x * s).expect("a * s", &m));
    must("a += &b", || { let mut m = a.matrix(); m += &b.matrix(); m }, |m| a.zip(&b, |x, y| x + y).expect("a += &b", &m));
    must("a += b", || { let mut m = a.matrix(); m += b.matrix(); m }, |m| a.zip(&b, |x, y| x + y).expect("a += b", &m));
    must("a -= &b", || { let mut m = a.matrix(); m -= &b.matrix(); m }, |m| a.zip(&b, |x, y| x - y).expect("a -= &b", &m));
    must("a -= b", || { let mut m = a.matrix(); m -= b.matrix(); m }, |m| a.zip(&b, |x, y| x - y).expect("a -= b", &m));
    must("a *= s", || { let mut m = a.matrix(); m *= s; m }, |m| a.map(|x| x * s).expect("a *= s", &m));
    must("a += s", || { let mut m = a.matrix(); m += s; m }, |m| a.map(|x| x + s).expect("a += s", &m));
    must("a -= s", || { let mut m = a.matrix(); m -= s; m }, |m| a.map(|x| x - s).expect("a -= s", &m));
    // transpose
    must("transpose", || a.matrix().transpose(), |m| a.transpose().expect("transpose", &m));
    must("transpose_in_place", || { let mut m = a.matrix(); m.transpose_in_place(); m }, |m| a.transpose().expect("transpose_in_place", &m));
    must("transpose twice", || a.matrix().transpose().transpose(), |m| a.expect("transpose twice", &m));
    // rows / columns
    let rv = var_vec("rv", c);
    let cv = var_vec("cv", r);
    for i in 0..r {
        must("get_row", || a.matrix().get_row(i), |v| expect_vec(&format!("get_row({})", i), &v, &a.e[i]));
        must("set_row", || { let mut m = a.matrix(); m.set_row(i, Vector::create(rv.clone())); m },
            |m| Model::from_fn(r, c, |x, y| if x == i { rv[y] } else { a.e[x][y] }).expect(&format!("set_row({})", i), &m));
        must("fill_row", || { let mut m = a.matrix(); m.fill_row(i, s); m },
            |m| Model::from_fn(r, c, |x, y| if x == i { s } else { a.e[x][y] }).expect(&format!("fill_row({})", i), &m));
        must("delete_row", || { let mut m = a.matrix(); m.delete_row(i); m },
            |m| Model::from_fn(r - 1, c, |x, y| if x < i { a.e[x][y] } else { a.e[x + 1][y] }).expect(&format!("delete_row({})", i), &m));
        for i2 in 0..r {
            must("swap_rows", || { let mut m = a.matrix(); m.swap_rows(i, i2); m },
                |m| Model::from_fn(r, c, |x, y| if x == i { a.e[i2][y] } else if x == i2 { a.e[i][y] } else { a.e[x][y] }).expect(&format!("swap_rows({},{})", i, i2), &m));
        }
    }
    for j in 0..c {
        must("get_col", || a.matrix().get_col(j), |v| { let col: Vec<Sym> = (0..r).map(|i| a.e[i][j]).collect(); expect_vec(&format!("get_col({})", j), &v, &col) });
        must(&format!("set_col({}) on {}x{}", j, r, c), || { let mut m = a.matrix(); m.set_col(j, Vector::create(cv.clone())); m },
            |m| Model::from_fn(r, c, |x, y| if y == j { cv[x] } else { a.e[x][y] }).expect(&format!("set_col({})", j), &m));
        must("fill_col", || { let mut m = a.matrix(); m.fill_col(j, s); m },
            |m| Model::from_fn(r, c, |x, y| if y == j { s } else { a.e[x][y] }).expect(&format!("fill_col({})", j), &m));
    }
    if r > 0 && c > 0 {
        let (i1, j1, i2, j2) = (0, c - 1, r - 1, 0);
        must("swap_elem", || { let mut m = a.matrix(); m.swap_elem(i1, j1, i2, j2); m },
            |m| Model::from_fn(r, c, |x, y| if (x, y) == (i1, j1) { a.e[i2][j2] } else if (x, y) == (i2, j2) { a.e[i1][j1] } else { a.e[x][y] }).expect("swap_elem", &m));
    }
    // fills
    must("fill", || { let mut m = a.matrix(); m.fill(s); m }, |m| Model::fill(r, c, s).expect("fill", &m));
    must("fill_diag", || { let mut m = a.matrix(); m.fill_diag(s); m }, |m| Model::from_fn(r, c, |x, y| if x == y { s } else { a.e[x][y] }).expect("fill_diag", &m));
    let maxd = r.max(c) as isize + 1;
    for off in -maxd..=maxd {
        must("fill_band", || { let mut m = a.matrix(); m.fill_band(off, s); m },
            |m| Model::from_fn(r, c, |x, y| if y as isize - x as isize == off { s } else { a.e[x][y] }).expect(&format!("fill_band({})", off), &m));
    }
    let (lo, di, up) = (Sym::var("lo"), Sym::var("di"), Sym::var("up"));
    must("fill_tridiag", || { let mut m = a.matrix(); m.fill_tridiag(lo, di, up); m },
        |m| Model::from_fn(r, c, |x, y| if x == y { di } else if x == y + 1 { lo } else if x + 1 == y { up } else { a.e[x][y] }).expect("fill_tridiag", &m));
    // resize to every shape in a small box around the current one
    for nr in 0..=r + 1 { for nc in 0..=c + 1 {
        must("resize", || { let mut m = a.matrix(); m.resize(nr, nc); m },
            |m| Model::from_fn(nr, nc, |x, y| if x < r && y < c { a.e[x][y] } else { z() }).expect(&format!("resize({},{})", nr, nc), &m));
    } }
    // a two-step history that the single steps above imply: delete then resize back
    if r > 0 {
        must("delete_row;resize", || { let mut m = a.matrix(); m.delete_row(0); m.resize(r, c); m },
            |m| Model::from_fn(r, c, |x, y| if x + 1 < r { a.e[x + 1][y] } else { z() }).expect("delete_row(0);resize", &m));
    }
    // shrink-then-grow histories: what the first call leaves behind in the buffer (beyond the rows/columns it reports) must not
    // come back - the single steps start from a freshly built matrix and cannot see that hidden state
    for nr in 0..=r { for nc in 0..=c { if nr < r || nc < c {
        let small = Model::from_fn(nr, nc, |x, y| a.e[x][y]);
        for (gr, gc) in [(r, c), (r + 1, nc), (nr, c + 1)] {
            must("resize;resize", || { let mut m = a.matrix(); m.resize(nr, nc); m.resize(gr, gc); m },
                |m| Model::from_fn(gr, gc, |x, y| if x < nr && y < nc { a.e[x][y] } else { z() }).expect(&format!("resize({},{});resize({},{})", nr, nc, gr, gc), &m));
        }
        must("resize;==", || { let mut m = a.matrix(); m.resize(nr, nc); let fresh = small.matrix(); (m == fresh, fresh == m) },
            |(e1, e2)| { prove(&format!("resize({},{}) equals (==) the freshly built matrix with the same entries", nr, nc), if e1 && e2 { B::True } else { B::False }); });
    } } }
    if r > 0 {
        must("delete_row;==", || { let mut m = a.matrix(); m.delete_row(r - 1); let fresh = Model::from_fn(r - 1, c, |x, y| a.e[x][y]).matrix(); m == fresh },
            |e| { prove("delete_row(last) equals (==) the freshly built matrix with the same entries", if e { B::True } else { B::False }); });
    }
    // scalar division (divisor assumed non-zero: a zero divisor is outside the definition)
    assume(ne(s, z()));
    must("&a / s", || &a.matrix() / s, |m| {
        let ok = m.rows() == r && m.cols() == c;
        prove("&a / s: shape", if ok { B::True } else { B::False });
        if ok { for i in 0..r { for j in 0..c { prove_eq(&format!("&a / s: entry ({},{}) times s", i, j), m[(i, j)] * s, a.e[i][j]); } } }
    });
    must("a / s", || a.matrix() / s, |m| {
        let ok = m.rows() == r && m.cols() == c;
        prove("a / s: shape", if ok { B::True } else { B::False });
        if ok { for i in 0..r { for j in 0..c { prove_eq(&format!("a / s: entry ({},{}) times s", i, j), m[(i, j)] * s, a.e[i][j]); } } }
    });
    must("a /= s", || { let mut m = a.matrix(); m /= s; m }, |m| {
        let ok = m.rows() == r && m.cols() == c;
        prove("a /= s: shape", if ok { B::True } else { B::False });
        if ok { for i in 0..r { for j in 0..c { prove_eq(&format!("a /= s: entry ({},{}) times s", i, j), m[(i, j)] * s, a.e[i][j]); } } }
    });
    if r > 0 && c > 0 {
        control("edit control", eq(a.e[0][0] + b.e[0][0], a.e[0][0] - b.e[0][0]));
    }
}

fn prod(r: usize, k: usize, c: usize) {
    let a = Model::vars("a", r, k);
    let b = Model::vars("b", k, c);
    let x = var_vec("x", k);
    let ab = Model::from_fn(r, c, |i, j| { let mut acc = z(); for t in 0..k { acc = acc + a.e[i][t] * b.e[t][j]; } acc });
    must(&format!("&A * &B with A {}x{}, B {}x{}", r, k, k, c), || &a.matrix() * &b.matrix(), |m| ab.expect("&A * &B", &m));
    must(&format!("A * B with A {}x{}, B {}x{}", r, k, k, c), || a.matrix() * b.matrix(), |m| ab.expect("A * B", &m));
    if c == 0 {
        let ax: Vec<Sym> = (0..r).map(|i| dotv(&a.e[i], &x)).collect();
        must("multiply", || a.matrix().multiply(&Vector::create(x.clone())), |v| expect_vec("multiply", &v, &ax));
        must("&A * &x", || &a.matrix() * &Vector::create(x.clone()), |v| expect_vec("&A * &x", &v, &ax));
        must("A * x", || a.matrix() * Vector::create(x.clone()), |v| expect_vec("A * x", &v, &ax));
    }
    if r > 0 && k > 0 && c > 0 {
        // (A B)^T = B^T A^T through the library on both sides
        must("(AB)^T = B^T A^T", || ((&a.matrix() * &b.matrix()).transpose(), &b.matrix().transpose() * &a.matrix().transpose()), |(l, rr)| {
            ab.transpose().expect("(AB)^T", &l);
            ab.transpose().expect("B^T A^T", &rr);
        });
        control("prod control", eq(ab.e[0][0], ab.e[0][0] + Sym::lit(1.0)));
    }
}

fn norms(r: usize, c: usize) {
    use ohsl_sym::Matrix as M2;
    let a = Model::vars("a", r, c);
    let mk = || { let mut m = M2::<Sym>::new(r, c, z()); for i in 0..r { for j in 0..c { m[(i, j)] = a.e[i][j]; } } m };
    let colsum: Vec<Sym> = (0..c).map(|j| { let mut s = z(); for i in 0..r { s = s + a.e[i][j].abs(); } s }).collect();
    let rowsum: Vec<Sym> = (0..r).map(|i| { let mut s = z(); for j in 0..c { s = s + a.e[i][j].abs(); } s }).collect();
    let all: Vec<Sym> = (0..r).flat_map(|i| (0..c).map(move |j| (i, j))).map(|(i, j)| a.e[i][j].abs()).collect();
    let is_max = |tag: &str, v: Sym, cands: &[Sym]| {
        for (k, x) in cands.iter().enumerate() { prove(&format!("{}: dominates candidate {}", tag, k), le(*x, v)); }
        let mut alts: Vec<B> = cands.iter().map(|x| eq(v, *x)).collect();
        alts.push(eq(v, z()));
        prove(&format!("{}: is attained (or 0 for an empty matrix)", tag), B::or(alts));
        prove(&format!("{}: non-negative", tag), le(z(), v));
    };
    must("norm_1", || mk().norm_1(), |v| is_max("norm_1 = max column sum", v, &colsum));
    must("norm_inf", || mk().norm_inf(), |v| is_max("norm_inf = max row sum", v, &rowsum));
    must("norm_max", || mk().norm_max(), |v| is_max("norm_max = max |entry|", v, &all));
    let mut sq = z();
    for x in &all { sq = sq + *x * *x; }
    must("norm_frob", || mk().norm_frob(), |v| {
        prove("norm_frob^2 = sum of squares", eq(v * v, sq));
        prove("norm_frob >= 0", le(z(), v));
    });
    must("norm_p(2)", || mk().norm_p(Sym::lit(2.0)), |v| { prove("norm_p(2)^2 = sum of squares", eq(v * v, sq)); });
    must("norm_p(1)", || mk().norm_p(Sym::lit(1.0)), |v| { let mut s1 = z(); for x in &all { s1 = s1 + *x; } prove("norm_p(1) = sum of |entries|", eq(v, s1)); });
    // f64 * matrix (f64-only operator)
    let s = Sym::var("s");
    must("s * A", || s * mk(), |m| {
        let ok = m.rows() == r && m.cols() == c;
        prove("s * A: shape", if ok { B::True } else { B::False });
        if ok { for i in 0..r { for j in 0..c { prove_eq(&format!("s * A: entry ({},{})", i, j), m[(i, j)], a.e[i][j] * s); } } }
    });
    if r > 0 && c > 0 { control("norms control", le(colsum[0], z())); }
}
