//! C04 - a banded matrix behaves exactly like the dense matrix with the same band.
use super::*;
use crate::util::*;
use ohsl::{Banded, Vector};
use symcore::*;

pub fn instances(tier: &str) -> Vec<String> {
    let mut v = Vec::new();
    let amax = if tier == "thorough" { 10 } else { 6 };
    for n in 1..=amax { for m1 in 0..n { for m2 in 0..n { v.push(format!("algebra:n={},m1={},m2={}", n, m1, m2)); } } }
    // solve / det: pivot search over m1+1 candidates per column
    let mut sd: Vec<(usize, usize, usize)> = Vec::new();
    for n in 1..=3 { for m1 in 0..n { for m2 in 0..n { sd.push((n, m1, m2)); } } }
    for m1 in 0..=1 { for m2 in 0..4 { sd.push((4, m1, m2)); } }
    if tier == "thorough" {
        for n in 5..=6 { for m1 in 0..=1 { for m2 in 0..=2 { sd.push((n, m1, m2)); } } }
        for m2 in 0..=2 { sd.push((4, 2, m2)); }
    }
    for (n, m1, m2) in [(1usize, 0usize, 0usize), (2, 0, 0), (2, 1, 0), (2, 0, 1), (2, 1, 1)] { v.push(format!("csolve:n={},m1={},m2={}", n, m1, m2)); }
    for (n, m1, m2) in sd {
        v.push(format!("solve:n={},m1={},m2={}", n, m1, m2));
        v.push(format!("det:n={},m1={},m2={}", n, m1, m2));
    }
    // element-wise arithmetic is ONE IEEE operation per entry (props/fparith.rs)
    v.push("fp_arith:of=banded,n=3,m1=1,m2=1".into());
    v
}

fn z() -> Sym { Sym::lit(0.0) }
fn in_band(i: usize, j: usize, m1: usize, m2: usize) -> bool { j <= i + m2 && i <= j + m1 }

/// banded matrix with its own symbol per in-band entry and the symbol `pad` in every padding slot
fn build(p: &str, n: usize, m1: usize, m2: usize, pad: Sym) -> (Banded<Sym>, Vec<Vec<Sym>>) {
    let mut b = Banded::<Sym>::new(n, m1, m2, pad);
    let mut dense = vec![vec![z(); n]; n];
    for i in 0..n { for j in 0..n { if in_band(i, j, m1, m2) {
        let s = Sym::var(&format!("{}_{}_{}", p, i, j));
        b[(i, j)] = s;
        dense[i][j] = s;
    } } }
    (b, dense)
}

fn expect_band(tag: &str, b: &Banded<Sym>, n: usize, m1: usize, m2: usize, f: impl Fn(usize, usize) -> Sym) {
    let ok = b.size() == n && b.size_below() == m1 && b.size_above() == m2;
    prove(&format!("{}: size and bandwidths preserved", tag), if ok { B::True } else { B::False });
    if !ok { return; }
    for i in 0..n { for j in 0..n { if in_band(i, j, m1, m2) {
        match catch(|| b[(i, j)]) {
            Ok(x) => { prove_eq(&format!("{}: entry ({},{})", tag, i, j), x, f(i, j)); }
            Err(s) => must_not_stop(&format!("{}: in-band entry ({},{}) readable", tag, i, j), &s),
        }
    } } }
}

/// Complex<f64> entries (derived crate): solve and det against the dense twin
fn complex_solve(n: usize, m1: usize, m2: usize) {
    use super::c01::cplx::cdet;
    use ohsl_sym::{Banded as B2, Cmplx, Vector as V2};
    let zero = Cmplx::new(z(), z());
    let mut b = B2::<Cmplx>::new(n, m1, m2, Cmplx::new(Sym::var("padr"), Sym::var("padi")));
    let mut dense = vec![vec![zero; n]; n];
    for i in 0..n { for j in 0..n { if in_band(i, j, m1, m2) { let e = Cmplx::new(Sym::var(&format!("ar_{}_{}", i, j)), Sym::var(&format!("ai_{}_{}", i, j))); b[(i, j)] = e; dense[i][j] = e; } } }
    let rhs: Vec<Cmplx> = (0..n).map(|i| Cmplx::new(Sym::var(&format!("br_{}", i)), Sym::var(&format!("bi_{}", i)))).collect();
    let d = cdet(&dense);
    must("complex det", || b.det(), |dd| { prove("complex banded det = dense determinant (real part)", eq(dd.real, d.real)); prove("complex banded det = dense determinant (imaginary part)", eq(dd.imag, d.imag)); });
    assume(B::or(vec![ne(d.real, z()), ne(d.imag, z())]));
    match catch(|| b.solve(&V2::create(rhs.clone()))) {
        Ok(x) => {
            prove("complex banded solve: length n", if x.size() == n { B::True } else { B::False });
            if x.size() == n { for i in 0..n {
                let mut acc = zero;
                for j in 0..n { acc = acc + dense[i][j] * x[j]; }
                prove(&format!("complex banded solve: residual row {} (real part)", i), eq(acc.real, rhs[i].real));
                prove(&format!("complex banded solve: residual row {} (imaginary part)", i), eq(acc.imag, rhs[i].imag));
                prove(&format!("complex banded solve: x[{}] independent of the padding", i), if x[i].real.mentions("pad") || x[i].imag.mentions("pad") { B::False } else { B::True });
            } }
        }
        Err(s) => must_not_stop("complex banded solve: nonsingular system must be solved", &s),
    }
}

pub fn body(inst: &str) {
    let (kind, p) = parse_inst(inst);
    let (n, m1, m2) = (geti(&p, "n"), geti(&p, "m1"), geti(&p, "m2"));
    if kind == "csolve" { return complex_solve(n, m1, m2); }
    let pad = Sym::var("pad");
    match kind.as_str() {
        "algebra" => {
            let (a, da) = build("a", n, m1, m2, pad);
            let (b, db) = build("b", n, m1, m2, Sym::var("padb"));
            let s = Sym::var("s");
            expect_band("index", &a, n, m1, m2, |i, j| da[i][j]);
            must("clone", || a.clone(), |r| expect_band("clone", &r, n, m1, m2, |i, j| da[i][j]));
            must("-&a", || -&a, |r| expect_band("-&a", &r, n, m1, m2, |i, j| -da[i][j]));
            must("-a", || -a.clone(), |r| expect_band("-a", &r, n, m1, m2, |i, j| -da[i][j]));
            must("&a + &b", || &a + &b, |r| expect_band("&a + &b", &r, n, m1, m2, |i, j| da[i][j] + db[i][j]));
            must("a + b", || a.clone() + b.clone(), |r| expect_band("a + b", &r, n, m1, m2, |i, j| da[i][j] + db[i][j]));
            must("&a - &b", || &a - &b, |r| expect_band("&a - &b", &r, n, m1, m2, |i, j| da[i][j] - db[i][j]));
            must("a - b", || a.clone() - b.clone(), |r| expect_band("a - b", &r, n, m1, m2, |i, j| da[i][j] - db[i][j]));
            must("&a * s", || &a * s, |r| expect_band("&a * s", &r, n, m1, m2, |i, j| da[i][j] * s));
            must("a * s", || a.clone() * s, |r| expect_band("a * s", &r, n, m1, m2, |i, j| da[i][j] * s));
            must("a += &b", || { let mut t = a.clone(); t += &b; t }, |r| expect_band("a += &b", &r, n, m1, m2, |i, j| da[i][j] + db[i][j]));
            must("a += b", || { let mut t = a.clone(); t += b.clone(); t }, |r| expect_band("a += b", &r, n, m1, m2, |i, j| da[i][j] + db[i][j]));
            must("a -= &b", || { let mut t = a.clone(); t -= &b; t }, |r| expect_band("a -= &b", &r, n, m1, m2, |i, j| da[i][j] - db[i][j]));
            must("a -= b", || { let mut t = a.clone(); t -= b.clone(); t }, |r| expect_band("a -= b", &r, n, m1, m2, |i, j| da[i][j] - db[i][j]));
            must("a *= s", || { let mut t = a.clone(); t *= s; t }, |r| expect_band("a *= s", &r, n, m1, m2, |i, j| da[i][j] * s));
            must("a += s", || { let mut t = a.clone(); t += s; t }, |r| expect_band("a += s", &r, n, m1, m2, |i, j| da[i][j] + s));
            must("a -= s", || { let mut t = a.clone(); t -= s; t }, |r| expect_band("a -= s", &r, n, m1, m2, |i, j| da[i][j] - s));
            must("fill", || { let mut t = a.clone(); t.fill(s); t }, |r| expect_band("fill", &r, n, m1, m2, |_, _| s));
            for band in -(m1 as isize)..=(m2 as isize) {
                must("fill_band", || { let mut t = a.clone(); t.fill_band(band, s); t },
                    |r| expect_band(&format!("fill_band({})", band), &r, n, m1, m2, |i, j| if j as isize - i as isize == band { s } else { da[i][j] }));
            }
            // matrix-vector product equals the dense product and never reads a padding slot
            let x = var_vec("x", n);
            let xv = Vector::create(x.clone());
            let dense_ax: Vec<Sym> = (0..n).map(|i| dotv(&da[i], &x)).collect();
            must("&a * &x", || &a * &xv, |r| {
                expect_vec("&a * &x", &r, &dense_ax);
                let clean = (0..r.size()).all(|i| !r[i].mentions("pad"));
                prove("&a * &x: no padding slot influences the product", if clean { B::True } else { B::False });
            });
            must("a * x", || a.clone() * xv.clone(), |r| expect_vec("a * x", &r, &dense_ax));
            // the same after the padding was overwritten through fill_band (padding != fill value)
            must("fill_band then product", || { let mut t = a.clone(); t.fill_band(0, s); &t * &xv }, |r| {
                let exp: Vec<Sym> = (0..n).map(|i| { let mut acc = z(); for j in 0..n { if in_band(i, j, m1, m2) { acc = acc + (if i == j { s } else { da[i][j] }) * x[j]; } } acc }).collect();
                expect_vec("fill_band(0) then &a * &x", &r, &exp);
            });
            assume(ne(s, z()));
            must("&a / s", || &a / s, |r| { for i in 0..n { for j in 0..n { if in_band(i, j, m1, m2) { prove_eq(&format!("&a / s: entry ({},{}) times s", i, j), r[(i, j)] * s, da[i][j]); } } } });
            must("a / s", || a.clone() / s, |r| { for i in 0..n { for j in 0..n { if in_band(i, j, m1, m2) { prove_eq(&format!("a / s: entry ({},{}) times s", i, j), r[(i, j)] * s, da[i][j]); } } } });
            must("a /= s", || { let mut t = a.clone(); t /= s; t }, |r| { for i in 0..n { for j in 0..n { if in_band(i, j, m1, m2) { prove_eq(&format!("a /= s: entry ({},{}) times s", i, j), r[(i, j)] * s, da[i][j]); } } } });
            control("algebra control", eq(da[0][0], da[0][0] + s));
        }
        "det" => {
            let (a, da) = build("a", n, m1, m2, pad);
            let d_ref = det(&da);
            match catch(|| a.det()) {
                Ok(d) => {
                    prove_eq("det equals the determinant of the dense twin", d, d_ref);
                    prove("det: no padding slot influences the determinant", if d.mentions("pad") { B::False } else { B::True });
                    control("det control", eq(d, d_ref + Sym::lit(1.0)));
                }
                Err(s) => must_not_stop("det of any banded matrix must be returned", &s),
            }
            expect_band("det leaves the operand intact", &a, n, m1, m2, |i, j| da[i][j]);
        }
        "solve" => {
            let (a, da) = build("a", n, m1, m2, pad);
            let b = var_vec("b", n);
            assume(ne(det(&da), z()));
            match catch(|| a.solve(&Vector::create(b.clone()))) {
                Ok(x) => {
                    let ok = x.size() == n;
                    prove("solve: result has length n", if ok { B::True } else { B::False });
                    if ok {
                        let xs: Vec<Sym> = (0..n).map(|i| x[i]).collect();
                        for i in 0..n { prove_eq(&format!("solve: residual row {} is zero", i), dotv(&da[i], &xs), b[i]); }
                        let clean = xs.iter().all(|t| !t.mentions("pad"));
                        prove("solve: no padding slot influences the solution", if clean { B::True } else { B::False });
                        for (site, num, den) in divisions() {
                            let f = site_fn(&site);
                            if f.ends_with("decompose") { prove(&format!("solve: multiplier bounded by 1 in {}", f), le(num.abs(), den.abs())); }
                        }
                        control("solve control", eq(x[0], b[0] + Sym::lit(1.0)));
                    }
                }
                Err(s) => must_not_stop("solve: nonsingular banded system must be solved", &s),
            }
            expect_band("solve leaves the operand intact", &a, n, m1, m2, |i, j| da[i][j]);
        }
        _ => panic!("unknown C04 instance"),
    }
}
