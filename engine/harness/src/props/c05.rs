//! C05 - tridiagonal matrix of any size equals its dense twin; solve is exact or refuses.
use super::*;
use crate::util::*;
use ohsl::{Tridiagonal, Vector};
use symcore::*;

pub fn instances(tier: &str) -> Vec<String> {
    let nmax = if tier == "thorough" { 8 } else { 5 };
    let mut v = Vec::new();
    for n in 1..=nmax {
        v.push(format!("algebra:n={}", n));
        v.push(format!("solve:n={}", n));
        v.push(format!("solve_dd:n={}", n));
    }
    for n in 1..=3 { v.push(format!("csolve:n={}", n)); }
    // element-wise arithmetic is ONE IEEE operation per entry (props/fparith.rs)
    v.push("fp_arith:of=tridiagonal,n=3".into());
    v
}

fn z() -> Sym { Sym::lit(0.0) }

fn build(p: &str, n: usize) -> (Tridiagonal<Sym>, Vec<Vec<Sym>>) {
    let sub = var_vec(&format!("{}sub", p), n - 1);
    let main = var_vec(&format!("{}main", p), n);
    let sup = var_vec(&format!("{}sup", p), n - 1);
    let mut d = vec![vec![z(); n]; n];
    for i in 0..n {
        d[i][i] = main[i];
        if i + 1 < n { d[i][i + 1] = sup[i]; d[i + 1][i] = sub[i]; }
    }
    (Tridiagonal::with_vecs(sub, main, sup), d)
}

fn expect_tri(tag: &str, t: &Tridiagonal<Sym>, n: usize, f: impl Fn(usize, usize) -> Sym) {
    let ok = t.size() == n && t.maindiagonal().size() == n && t.subdiagonal().size() == n - 1 && t.superdiagonal().size() == n - 1;
    prove(&format!("{}: size n and diagonal lengths n-1, n, n-1", tag), if ok { B::True } else { B::False });
    if !ok { return; }
    for i in 0..n { for j in 0..n { if i == j || i == j + 1 || i + 1 == j {
        match catch(|| t[(i, j)]) {
            Ok(x) => { prove_eq(&format!("{}: entry ({},{})", tag, i, j), x, f(i, j)); }
            Err(s) => must_not_stop(&format!("{}: entry ({},{}) readable", tag, i, j), &s),
        }
    } } }
}

/// Complex<f64> entries (derived crate): solve is exact or refuses; conj; determinant; product
fn complex_solve(n: usize) {
    use ohsl_sym::{Cmplx, Tridiagonal as T2, Vector as V2};
    let cv = |p: &str, k: usize| -> Vec<Cmplx> { (0..k).map(|i| Cmplx::new(Sym::var(&format!("{}r_{}", p, i)), Sym::var(&format!("{}i_{}", p, i)))).collect() };
    let (sub, main, sup, r) = (cv("l", n - 1), cv("d", n), cv("u", n - 1), cv("r", n));
    let t = T2::<Cmplx>::with_vecs(sub.clone(), main.clone(), sup.clone());
    let zero = Cmplx::new(z(), z());
    let entry = |i: usize, j: usize| -> Cmplx { if i == j { main[i] } else if i == j + 1 { sub[j] } else if i + 1 == j { sup[i] } else { zero } };
    must("conj", || t.conj(), |c| { for i in 0..n { prove("conj main (re)", eq(c[(i, i)].real, main[i].real)); prove("conj main (im)", eq(c[(i, i)].imag, -main[i].imag)); } });
    match catch(|| t.solve(&V2::create(r.clone()))) {
        Ok(x) => {
            prove("complex solve: result has length n", if x.size() == n { B::True } else { B::False });
            if x.size() == n { for i in 0..n {
                let mut acc = zero;
                for j in 0..n { if i == j || i == j + 1 || i + 1 == j { acc = acc + entry(i, j) * x[j]; } }
                prove(&format!("complex solve: residual row {} (real part)", i), eq(acc.real, r[i].real));
                prove(&format!("complex solve: residual row {} (imaginary part)", i), eq(acc.imag, r[i].imag));
            } }
        }
        Err(Stop::Panic { msg, .. }) => {
            let lower = msg.to_lowercase();
            prove(&format!("complex solve: the only panic is the zero-pivot refusal (got '{}')", msg), if lower.contains("zero") || lower.contains("pivot") { B::True } else { B::False });
            // a refusal is justified only when elimination really meets a zero pivot: some leading principal minor vanishes (both parts)
            let dense: Vec<Vec<Cmplx>> = (0..n).map(|i| (0..n).map(|j| entry(i, j)).collect()).collect();
            let minors: Vec<Cmplx> = (1..=n).map(|k| { let sub: Vec<Vec<Cmplx>> = (0..k).map(|i| dense[i][..k].to_vec()).collect(); super::c01::cplx::cdet(&sub) }).collect();
            prove("complex solve: refuses only when a leading principal minor is zero", B::or(minors.iter().map(|m| B::and(vec![eq(m.real, z()), eq(m.imag, z())])).collect()));
        }
        Err(s) => must_not_stop("complex solve: must return or refuse, never divide by zero", &s),
    }
}

pub fn body(inst: &str) {
    let (kind, p) = parse_inst(inst);
    let n = geti(&p, "n");
    if kind == "csolve" { return complex_solve(n); }
    match kind.as_str() {
        "algebra" => {
            let (a, da) = build("a", n);
            let (b, db) = build("b", n);
            let s = Sym::var("s");
            expect_tri("index", &a, n, |i, j| da[i][j]);
            must("clone", || a.clone(), |r| expect_tri("clone", &r, n, |i, j| da[i][j]));
            must("convert", || a.convert(), |m| Model::from_fn(n, n, |i, j| da[i][j]).expect("convert", &m));
            must("transpose", || a.transpose(), |r| expect_tri("transpose", &r, n, |i, j| da[j][i]));
            must("transpose_in_place", || { let mut t = a.clone(); t.transpose_in_place(); t }, |r| expect_tri("transpose_in_place", &r, n, |i, j| da[j][i]));
            must("-a", || -a.clone(), |r| expect_tri("-a", &r, n, |i, j| -da[i][j]));
            must("a + b", || a.clone() + b.clone(), |r| expect_tri("a + b", &r, n, |i, j| da[i][j] + db[i][j]));
            must("a - b", || a.clone() - b.clone(), |r| expect_tri("a - b", &r, n, |i, j| da[i][j] - db[i][j]));
            must("a * s", || a.clone() * s, |r| expect_tri("a * s", &r, n, |i, j| da[i][j] * s));
            must("a += s", || { let mut t = a.clone(); t += s; t }, |r| expect_tri("a += s", &r, n, |i, j| da[i][j] + s));
            must("a -= s", || { let mut t = a.clone(); t -= s; t }, |r| expect_tri("a -= s", &r, n, |i, j| da[i][j] - s));
            must("a *= s", || { let mut t = a.clone(); t *= s; t }, |r| expect_tri("a *= s", &r, n, |i, j| da[i][j] * s));
            must("new", || Tridiagonal::<Sym>::new(n), |r| expect_tri("new", &r, n, |_, _| z()));
            must("with_elements", || Tridiagonal::<Sym>::with_elements(s, s + s, s * s, n), |r| expect_tri("with_elements", &r, n, |i, j| if i == j { s + s } else if i == j + 1 { s } else { s * s }));
            must("resize", || { let mut t = a.clone(); t.resize(n + 1); t }, |r| expect_tri("resize", &r, n + 1, |_, _| z()));
            must("index_mut", || { let mut t = a.clone(); t[(n - 1, n - 1)] = s; if n > 1 { t[(n - 1, n - 2)] = s + s; t[(0, 1)] = s * s; } t },
                |r| expect_tri("index_mut", &r, n, |i, j| if (i, j) == (n - 1, n - 1) { s } else if n > 1 && (i, j) == (n - 1, n - 2) { s + s } else if n > 1 && (i, j) == (0, 1) { s * s } else { da[i][j] }));
            must("det", || a.det(), |d| { prove_eq("det equals the determinant of the dense twin", d, det(&da)); });
            let x = var_vec("x", n);
            let xv = Vector::create(x.clone());
            let ax: Vec<Sym> = (0..n).map(|i| dotv(&da[i], &x)).collect();
            must(&format!("&T * &x at n = {}", n), || &a * &xv, |r| expect_vec("&T * &x", &r, &ax));
            must(&format!("T * x at n = {}", n), || a.clone() * xv.clone(), |r| expect_vec("T * x", &r, &ax));
            // f64-only left scalar multiple (derived crate)
            {
                use ohsl_sym::Tridiagonal as T2;
                let mk = || T2::<Sym>::with_vecs((0..n - 1).map(|i| da[i + 1][i]).collect(), (0..n).map(|i| da[i][i]).collect(), (0..n - 1).map(|i| da[i][i + 1]).collect());
                must("s * T", || s * mk(), |r| { for i in 0..n { for j in 0..n { if i == j || i == j + 1 || i + 1 == j { prove_eq(&format!("s * T: entry ({},{})", i, j), r[(i, j)], s * da[i][j]); } } } });
            }
            assume(ne(s, z()));
            must("a / s", || a.clone() / s, |r| { for i in 0..n { for j in 0..n { if i == j || i == j + 1 || i + 1 == j { prove_eq(&format!("a / s: entry ({},{}) times s", i, j), r[(i, j)] * s, da[i][j]); } } } });
            must("a /= s", || { let mut t = a.clone(); t /= s; t }, |r| { for i in 0..n { for j in 0..n { if i == j || i == j + 1 || i + 1 == j { prove_eq(&format!("a /= s: entry ({},{}) times s", i, j), r[(i, j)] * s, da[i][j]); } } } });
            control("algebra control", eq(da[0][0], da[0][0] + s));
        }
        "solve" | "solve_dd" => {
            let (a, da) = build("a", n);
            let r = var_vec("r", n);
            if kind == "solve_dd" {
                for i in 0..n {
                    let mut off = z();
                    if i > 0 { off = off + da[i][i - 1].abs(); }
                    if i + 1 < n { off = off + da[i][i + 1].abs(); }
                    assume(lt(off, da[i][i].abs()));
                }
            }
            // leading principal minors of the dense twin
            let minors: Vec<Sym> = (1..=n).map(|k| { let sub: Vec<Vec<Sym>> = (0..k).map(|i| da[i][..k].to_vec()).collect(); det(&sub) }).collect();
            match catch(|| a.solve(&Vector::create(r.clone()))) {
                Ok(x) => {
                    let ok = x.size() == n;
                    prove("solve: result has length n", if ok { B::True } else { B::False });
                    if ok {
                        let xs: Vec<Sym> = (0..n).map(|i| x[i]).collect();
                        for i in 0..n { prove_eq(&format!("solve: residual row {} is zero", i), dotv(&da[i], &xs), r[i]); }
                        control("solve control", eq(x[0], r[0] + Sym::lit(1.0)));
                    }
                }
                Err(Stop::Panic { msg, loc }) => {
                    let lower = msg.to_lowercase();
                    let refusal = lower.contains("zero") || lower.contains("pivot") || lower.contains("singular");
                    prove(&format!("solve: the only panic is the zero-pivot refusal (got '{}' at {})", msg, loc), if refusal { B::True } else { B::False });
                    if kind == "solve_dd" {
                        prove("solve: a strictly diagonally dominant system is never refused", B::False);
                    } else {
                        prove("solve: refusal only when a leading principal minor vanishes (elimination meets a zero pivot)", B::or(minors.iter().map(|m| eq(*m, z())).collect()));
                    }
                }
                Err(s) => must_not_stop("solve: must return or refuse, never divide by zero", &s),
            }
            expect_tri("solve leaves the operand intact", &a, n, |i, j| da[i][j]);
        }
        _ => panic!("unknown C05 instance"),
    }
}
