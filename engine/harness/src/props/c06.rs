//! C06 - all views of a sparse matrix agree; compressed-column form stays well-formed.
//! Structure (shape, pattern, triplet order) is enumerated; values are symbols.
use super::*;
use crate::util::*;
use ohsl::Sparse;
use std::collections::BTreeMap;
use symcore::*;

pub fn instances(tier: &str, seed: u64) -> Vec<String> {
    let mut v = Vec::new();
    let smax = 3;
    for r in 0..=smax { for c in 0..=smax { v.push(format!("shape:r={},c={}", r, c)); } }
    if tier == "thorough" {
        for (r, c) in [(4, 4), (4, 3), (3, 4), (1, 4), (4, 1), (2, 4), (4, 2), (0, 4), (4, 0)] { v.push(format!("shape:r={},c={}", r, c)); }
        for k in 0..8 { v.push(format!("seeded:r=8,c=8,k={},seed={}", k, seed)); v.push(format!("seeded:r=5,c=7,k={},seed={}", k, seed)); v.push(format!("seeded:r=7,c=5,k={},seed={}", k, seed)); }
    } else {
        for k in 0..2 { v.push(format!("seeded:r=8,c=8,k={},seed={}", k, seed)); v.push(format!("seeded:r=5,c=7,k={},seed={}", k, seed)); }
    }
    v
}

type Ref = BTreeMap<(usize, usize), Sym>;

struct Rng(u64);
impl Rng {
    fn next(&mut self) -> u64 { self.0 ^= self.0 << 13; self.0 ^= self.0 >> 7; self.0 ^= self.0 << 17; self.0 }
    fn below(&mut self, n: usize) -> usize { (self.next() % (n as u64)) as usize }
    fn shuffle<T>(&mut self, v: &mut Vec<T>) { for i in (1..v.len()).rev() { let j = self.below(i + 1); v.swap(i, j); } }
}

fn permutations(n: usize) -> Vec<Vec<usize>> {
    fn rec(cur: &mut Vec<usize>, used: &mut Vec<bool>, n: usize, out: &mut Vec<Vec<usize>>) {
        if cur.len() == n { out.push(cur.clone()); return; }
        for i in 0..n { if !used[i] { used[i] = true; cur.push(i); rec(cur, used, n, out); cur.pop(); used[i] = false; } }
    }
    let mut out = Vec::new();
    rec(&mut Vec::new(), &mut vec![false; n], n, &mut out);
    out
}

/// Every public view of `s` must describe exactly the reference matrix `m`, and the CSC arrays must be well-formed.
fn views_agree(tag: &str, s: &Sparse<Sym>, rows: usize, cols: usize, m: &Ref) {
    count_case();
    let ctx = || format!("{} [{}x{}, entries {:?}]", tag, rows, cols, m.keys().collect::<Vec<_>>());
    if !check_that(s.rows == rows && s.cols == cols, || format!("{}: shape recorded", ctx())) { return; }
    let nnz = m.len();
    // structural invariants
    let wf = s.col_start.len() == cols + 1 && s.col_start[0] == 0 && s.col_start.windows(2).all(|w| w[0] <= w[1])
        && s.col_start[cols] == s.nonzero && s.val.len() == s.nonzero && s.row_index.len() == s.nonzero && s.row_index.iter().all(|&r| r < rows);
    if !check_that(wf, || format!("{}: CSC well-formed (col_start {:?}, nonzero {}, val {}, row_index {:?})", ctx(), s.col_start, s.nonzero, s.val.len(), s.row_index)) { return; }
    check_that(s.nonzero == nnz, || format!("{}: entry count is {} (got {})", ctx(), nnz, s.nonzero));
    // no duplicate (row, col) stored
    let mut seen = std::collections::BTreeSet::new();
    let mut dup = false;
    for j in 0..cols { for k in s.col_start[j]..s.col_start[j + 1] { if !seen.insert((s.row_index[k], j)) { dup = true; } } }
    check_that(!dup, || format!("{}: no position stored twice", ctx()));
    // get
    for i in 0..rows { for j in 0..cols {
        match catch(|| s.get(i, j)) {
            Ok(g) => {
                let ok = match (g, m.get(&(i, j))) { (Some(x), Some(y)) => x.same(*y), (None, None) => true, _ => false };
                check_that(ok, || format!("{}: get({},{}) agrees with the reference", ctx(), i, j));
            }
            Err(st) => { check_that(false, || format!("{}: get({},{}) must not fail: {}", ctx(), i, j, stop_text(&st))); }
        }
    } }
    // to_triplets: the same set, column-major
    match catch(|| s.to_triplets()) {
        Ok(t) => {
            let mut ok = t.len() == nnz; // (the statement asks for the same SET of entries; no particular order is required)
            for (i, j, v) in &t { ok = ok && m.get(&(*i, *j)).map(|x| x.same(*v)).unwrap_or(false); }
            let distinct: std::collections::BTreeSet<(usize, usize)> = t.iter().map(|x| (x.0, x.1)).collect();
            ok = ok && distinct.len() == t.len();
            check_that(ok, || format!("{}: to_triplets lists exactly the reference entries", ctx()));
        }
        Err(st) => { check_that(false, || format!("{}: to_triplets must not fail: {}", ctx(), stop_text(&st))); }
    }
    // to_dense
    match catch(|| s.to_dense()) {
        Ok(d) => {
            let mut ok = d.rows() == rows && d.cols() == cols;
            if ok { for i in 0..rows { for j in 0..cols {
                let x = d[(i, j)];
                ok = ok && match m.get(&(i, j)) { Some(y) => x.same(*y), None => x.same(Sym::lit(0.0)) };
            } } }
            check_that(ok, || format!("{}: to_dense equals the reference matrix", ctx()));
        }
        Err(st) => { check_that(false, || format!("{}: to_dense must not fail: {}", ctx(), stop_text(&st))); }
    }
    // col_index expansion
    match catch(|| s.col_index()) {
        Ok(ci) => {
            let mut ok = ci.size() == nnz;
            if ok { for j in 0..cols { for k in s.col_start[j]..s.col_start[j + 1] { ok = ok && ci[k] == j; } } }
            check_that(ok, || format!("{}: col_index expands col_start", ctx()));
        }
        Err(st) => { check_that(false, || format!("{}: col_index must not fail: {}", ctx(), stop_text(&st))); }
    }
}

fn positions(r: usize, c: usize, mask: u64) -> Vec<(usize, usize)> {
    let mut v = Vec::new();
    for i in 0..r { for j in 0..c { if mask >> (i * c + j) & 1 == 1 { v.push((i, j)); } } }
    v
}

/// Build an arbitrary valid CSC representation (within-column order given by `rng`) through from_vecs.
fn from_vecs_repr(r: usize, c: usize, m: &Ref, rng: &mut Rng) -> Sparse<Sym> {
    let mut val = Vec::new();
    let mut ri = Vec::new();
    let mut cs = vec![0usize; c + 1];
    for j in 0..c {
        let mut col: Vec<(usize, Sym)> = m.iter().filter(|(k, _)| k.1 == j).map(|(k, v)| (k.0, *v)).collect();
        rng.shuffle(&mut col);
        for (i, v) in col { ri.push(i); val.push(v); }
        cs[j + 1] = val.len();
    }
    Sparse::from_vecs(r, c, val, ri, cs)
}

fn one_pattern(r: usize, c: usize, pos: &[(usize, usize)], rng: &mut Rng, all_orders: bool) {
    let m: Ref = pos.iter().map(|&(i, j)| ((i, j), Sym::var(&format!("a_{}_{}", i, j)))).collect();
    // construction from triplets in (every | some) order
    let orders: Vec<Vec<usize>> = if all_orders && pos.len() <= 4 { permutations(pos.len()) } else {
        let mut v = Vec::new();
        let mut id: Vec<usize> = (0..pos.len()).collect();
        v.push(id.clone());
        id.reverse();
        v.push(id.clone());
        for _ in 0..4 { rng.shuffle(&mut id); v.push(id.clone()); }
        v
    };
    for ord in &orders {
        let mut trip: Vec<(usize, usize, Sym)> = ord.iter().map(|&k| (pos[k].0, pos[k].1, m[&pos[k]])).collect();
        match catch(|| Sparse::from_triplets(r, c, &mut trip)) {
            Ok(s) => views_agree(&format!("from_triplets order {:?}", ord), &s, r, c, &m),
            Err(st) => { check_that(false, || format!("from_triplets {}x{} {:?} must not fail: {}", r, c, pos, stop_text(&st))); }
        }
    }
    // one step from an arbitrary valid representation
    let base = || from_vecs_repr(r, c, &m, &mut Rng(0x9E3779B97F4A7C15 ^ (pos.len() as u64 * 77 + 1)));
    views_agree("from_vecs", &from_vecs_repr(r, c, &m, rng), r, c, &m);
    let w = Sym::var("w");
    for i in 0..r { for j in 0..c {
        let mut s = base();
        let mut m2 = m.clone();
        m2.insert((i, j), w);
        let what = if m.contains_key(&(i, j)) { "overwrite" } else { "insert" };
        match catch(move || { s.insert(i, j, w); s }) {
            Ok(s2) => views_agree(&format!("{}({},{})", what, i, j), &s2, r, c, &m2),
            Err(st) => { check_that(false, || format!("{}({},{}) on {}x{} {:?} must not fail: {}", what, i, j, r, c, pos, stop_text(&st))); }
        }
    } }
    {
        let mut s = base();
        let m2: Ref = m.iter().map(|(k, v)| (*k, *v * w)).collect();
        match catch(move || { s.scale(&w); s }) {
            Ok(s2) => views_agree("scale", &s2, r, c, &m2),
            Err(st) => { check_that(false, || format!("scale must not fail: {}", stop_text(&st))); }
        }
    }
    {
        let s = base();
        let m2: Ref = m.iter().map(|(k, v)| ((k.1, k.0), *v)).collect();
        match catch(|| s.transpose()) {
            Ok(s2) => {
                views_agree("transpose", &s2, c, r, &m2);
                match catch(|| s2.transpose()) {
                    Ok(s3) => views_agree("transpose twice", &s3, r, c, &m),
                    Err(st) => { check_that(false, || format!("transpose twice must not fail: {}", stop_text(&st))); }
                }
            }
            Err(st) => { check_that(false, || format!("transpose of {}x{} {:?} must not fail: {}", r, c, pos, stop_text(&st))); }
        }
        // the operand of transpose is untouched
        views_agree("operand after transpose", &s, r, c, &m);
    }
    // a two-step history: insert then insert
    if r > 0 && c > 0 {
        let mut s = base();
        let (p1, p2) = ((0usize, c - 1), (r - 1, 0usize));
        let w2 = Sym::var("w2");
        let mut m2 = m.clone();
        m2.insert(p1, w);
        m2.insert(p2, w2);
        match catch(move || { s.insert(p1.0, p1.1, w); s.insert(p2.0, p2.1, w2); s }) {
            Ok(s2) => views_agree("insert;insert", &s2, r, c, &m2),
            Err(st) => { check_that(false, || format!("insert;insert must not fail: {}", stop_text(&st))); }
        }
    }
}

pub fn body(inst: &str) {
    let (kind, p) = parse_inst(inst);
    let (r, c) = (geti(&p, "r"), geti(&p, "c"));
    let mut rng = Rng(0x2545F4914F6CDD1D ^ ((geti(&p, "k") as u64 + 1 + 1000 * geti(&p, "seed") as u64).wrapping_mul(0x9E3779B97F4A7C15)) | 1);
    match kind.as_str() {
        "shape" => {
            let bits = r * c;
            for mask in 0..(1u64 << bits) {
                let pos = positions(r, c, mask);
                one_pattern(r, c, &pos, &mut rng, true);
            }
        }
        "seeded" => {
            for _ in 0..12 {
                let dens = 1 + rng.below(6);
                let mut pos = Vec::new();
                for i in 0..r { for j in 0..c { if rng.below(8) < dens { pos.push((i, j)); } } }
                one_pattern(r, c, &pos, &mut rng, false);
            }
        }
        _ => panic!("unknown C06 instance"),
    }
    control("C06 control: two different symbols are not identical", eq(Sym::var("w"), Sym::var("w2")));
}
