//! C07 - sparse products equal dense products; transpose is the adjoint.
use super::*;
use crate::util::*;
use ohsl::{Sparse, Vector};
use symcore::*;

pub fn instances(tier: &str, seed: u64) -> Vec<String> {
    let mut v = Vec::new();
    for r in 0..=3 { for c in 0..=3 { v.push(format!("shape:r={},c={}", r, c)); } }
    if tier == "thorough" {
        for (r, c) in [(4, 4), (4, 3), (3, 4), (2, 4), (4, 2), (1, 4), (4, 1)] { for part in 0..8 { v.push(format!("shape:r={},c={},part={},of=8", r, c, part)); } }
        for k in 0..8 { v.push(format!("seeded:r=10,c=10,k={},seed={}", k, seed)); v.push(format!("seeded:r=6,c=9,k={},seed={}", k, seed)); v.push(format!("seeded:r=9,c=6,k={},seed={}", k, seed)); }
    } else {
        for k in 0..2 { v.push(format!("seeded:r=10,c=10,k={},seed={}", k, seed)); v.push(format!("seeded:r=6,c=9,k={},seed={}", k, seed)); }
    }
    v
}

struct Rng(u64);
impl Rng {
    fn next(&mut self) -> u64 { self.0 ^= self.0 << 13; self.0 ^= self.0 >> 7; self.0 ^= self.0 << 17; self.0 }
    fn below(&mut self, n: usize) -> usize { (self.next() % (n as u64)) as usize }
}

fn z() -> Sym { Sym::lit(0.0) }

fn one_pattern(r: usize, c: usize, mask: &[Vec<bool>], rng: &mut Rng, adjoint: bool) {
    count_case();
    let a: Vec<Vec<Sym>> = (0..r).map(|i| (0..c).map(|j| if mask[i][j] { Sym::var(&format!("a_{}_{}", i, j)) } else { z() }).collect()).collect();
    // CSC arrays with a pseudo-random within-column order
    let (mut val, mut ri, mut cs) = (Vec::new(), Vec::new(), vec![0usize; c + 1]);
    for j in 0..c {
        let mut rows: Vec<usize> = (0..r).filter(|&i| mask[i][j]).collect();
        for k in (1..rows.len()).rev() { let t = rng.below(k + 1); rows.swap(k, t); }
        for i in rows { ri.push(i); val.push(a[i][j]); }
        cs[j + 1] = val.len();
    }
    let s = Sparse::from_vecs(r, c, val, ri, cs);
    let x = var_vec("x", c);
    let y = var_vec("y", r);
    let (xv, yv) = (Vector::create(x.clone()), Vector::create(y.clone()));
    let ax: Vec<Sym> = (0..r).map(|i| dotv(&a[i], &x)).collect();
    let aty: Vec<Sym> = (0..c).map(|j| { let mut acc = z(); for i in 0..r { acc = acc + a[i][j] * y[i]; } acc }).collect();
    let tag = format!("{}x{} pattern {:?}", r, c, mask.iter().map(|row| row.iter().map(|&b| if b { '1' } else { '0' }).collect::<String>()).collect::<Vec<_>>());
    must(&format!("multiply {}", tag), || s.multiply(&xv), |v| expect_vec(&format!("multiply {}", tag), &v, &ax));
    must(&format!("transpose_multiply {}", tag), || s.transpose_multiply(&yv), |v| expect_vec(&format!("transpose_multiply {}", tag), &v, &aty));
    must(&format!("transpose().multiply {}", tag), || s.transpose().multiply(&yv), |v| expect_vec(&format!("transpose().multiply {}", tag), &v, &aty));
    must(&format!("transpose().transpose_multiply {}", tag), || s.transpose().transpose_multiply(&xv), |v| expect_vec(&format!("transpose().transpose_multiply {}", tag), &v, &ax));
    if adjoint {
        must(&format!("adjoint {}", tag), || (yv.dot(&s.multiply(&xv)), s.transpose_multiply(&yv).dot(&xv)), |(l, rr)| { prove_eq(&format!("<y, A x> = <A^T y, x> {}", tag), l, rr); });
        let w = Sym::var("w");
        // history: transpose, then scale, then products (the transposed matrix must be a fully valid operand)
        must(&format!("transpose;scale {}", tag), || { let mut t = s.transpose(); t.scale(&w); (t.multiply(&yv), t.transpose_multiply(&xv)) }, |(v1, v2)| {
            let ok = v1.size() == c && v2.size() == r;
            prove(&format!("transpose;scale then products: lengths {}", tag), if ok { B::True } else { B::False });
            if ok {
                for j in 0..c { prove_eq(&format!("(w A^T) y = w (A^T y) row {} {}", j, tag), v1[j], w * aty[j]); }
                for i in 0..r { prove_eq(&format!("(w A^T)^T x = w (A x) row {} {}", i, tag), v2[i], w * ax[i]); }
            }
        });
        must(&format!("scale {}", tag), || { let mut t = Sparse::from_vecs(s.rows, s.cols, s.val.clone(), s.row_index.clone(), s.col_start.clone()); t.scale(&w); (t.multiply(&xv), t.transpose_multiply(&yv)) }, |(v1, v2)| {
            let ok = v1.size() == r && v2.size() == c;
            prove(&format!("scale then products: lengths {}", tag), if ok { B::True } else { B::False });
            if ok {
                for i in 0..r { prove_eq(&format!("(wA)x = w(Ax) row {} {}", i, tag), v1[i], w * ax[i]); }
                for j in 0..c { prove_eq(&format!("(wA)^T y = w(A^T y) row {} {}", j, tag), v2[j], w * aty[j]); }
            }
        });
    }
}

pub fn body(inst: &str) {
    let (kind, p) = parse_inst(inst);
    let (r, c) = (geti(&p, "r"), geti(&p, "c"));
    let mut rng = Rng(0x2545F4914F6CDD1D ^ ((geti(&p, "k") as u64 + 1 + 1000 * geti(&p, "seed") as u64).wrapping_mul(0x9E3779B97F4A7C15)) | 1);
    match kind.as_str() {
        "shape" => {
            let bits = r * c;
            let (part, of) = (geti(&p, "part") as u64, geti(&p, "of").max(1) as u64);
            for m in 0..(1u64 << bits) {
                if m % of != part { continue; }
                let mask: Vec<Vec<bool>> = (0..r).map(|i| (0..c).map(|j| m >> (i * c + j) & 1 == 1).collect()).collect();
                // the adjoint/scale identities need the solver: every pattern up to 9 cells, a slice beyond
                one_pattern(r, c, &mask, &mut rng, bits <= 9 || m % 16 == 5);
            }
        }
        "seeded" => {
            for _ in 0..6 {
                let dens = 1 + rng.below(6);
                let mask: Vec<Vec<bool>> = (0..r).map(|_| (0..c).map(|_| rng.below(8) < dens).collect()).collect();
                one_pattern(r, c, &mask, &mut rng, true);
            }
        }
        _ => panic!("unknown C07 instance"),
    }
    let (x0, y0) = (Sym::var("x_0"), Sym::var("y_0"));
    control("C07 control", eq(x0 * y0, x0 + y0));
}
