//! C08 - iterative solvers: reported success means solved to the tolerance (exact-arithmetic core).
//! C09 - degenerate starts (exact initial guess, zero right-hand side) are accepted; n = 1 converges.
use super::*;
use crate::util::*;
use ohsl_sym::{Sparse, Vector};
use symcore::*;

pub const SOLVERS: [&str; 5] = ["cg", "bicg1", "bicg2", "bicgstab", "qmr"];

pub fn instances(tier: &str) -> Vec<String> {
    let mut v = Vec::new();
    for s in SOLVERS {
        // rhs=zero: b is literally zero; rhs=nz: ||b|| != 0 assumed.  Together they cover every right-hand side;
        // splitting here (instead of on the solver's own `normb == 0` test) keeps each query small.
        for rhs in ["zero", "nz"] {
            for pat in ["full", "diag", "upper"] {
                v.push(format!("ok:solver={},n=2,pat={},iters=0,rhs={}", s, pat, rhs));
                v.push(format!("ok:solver={},n=2,pat={},iters=1,rhs={}", s, pat, rhs));
            }
            // two iterations exercise the beta / direction-update recurrences (BiCGSTAB's second step is thorough-only: slow)
            if tier != "thorough" && s != "bicgstab" && rhs == "nz" { v.push(format!("ok:solver={},n=2,pat=full,iters=2,rhs={}", s, rhs)); }
            // n=3, two iterations: at n=2 the second Krylov iterate is already exact, so a wrong residual recurrence (QMR's `s`,
            // BiCG's `r`) only shows from n=3 on.  BiCGSTAB: only the diagonal pattern finishes (55 s), thorough-only.
            if rhs == "nz" {
                if s != "bicgstab" {
                    v.push(format!("ok:solver={},n=3,pat=upper,iters=2,rhs={}", s, rhs));
                    if tier == "thorough" { v.push(format!("ok:solver={},n=3,pat=full,iters=2,rhs={}", s, rhs)); }
                } else if tier == "thorough" { v.push(format!("ok:solver={},n=3,pat=diag,iters=2,rhs={}", s, rhs)); }
            }
            v.push(format!("ok:solver={},n=1,pat=full,iters=1,rhs={}", s, rhs));
            v.push(format!("ok:solver={},n=1,pat=full,iters=2,rhs={}", s, rhs));
            if tier == "thorough" {
                // (BiCGSTAB, two iterations, general right-hand side: the residual identity after the second full step stays
                //  `unknown` at the 120 s cap, so that combination is outside the claim)
                if !(s == "bicgstab" && rhs == "nz") { v.push(format!("ok:solver={},n=2,pat=full,iters=2,rhs={}", s, rhs)); }
                v.push(format!("ok:solver={},n=3,pat=full,iters=1,rhs={}", s, rhs));
            }
        }
    }
    v
}

pub fn instances_c09(tier: &str) -> Vec<String> {
    let mut v = Vec::new();
    for s in SOLVERS {
        for n in 1..=(if tier == "thorough" { 3 } else { 2 }) {
            v.push(format!("exact:solver={},n={},iters=3", s, n));
            v.push(format!("zero:solver={},n={},iters=3", s, n));
        }
        v.push(format!("one:solver={},n=1,iters=2", s));
    }
    v
}

fn z() -> Sym { Sym::lit(0.0) }

pub fn build(n: usize, pat: &str) -> (Sparse<Sym>, Vec<Vec<Sym>>) {
    let mut trip = Vec::new();
    let mut dense = vec![vec![z(); n]; n];
    for i in 0..n { for j in 0..n {
        let keep = match pat { "diag" => i == j, "upper" => i <= j, _ => true };
        if keep { let s = Sym::var(&format!("a_{}_{}", i, j)); dense[i][j] = s; trip.push((i, j, s)); }
    } }
    (Sparse::from_triplets(n, n, &mut trip), dense)
}

pub fn call(solver: &str, a: &Sparse<Sym>, b: &Vector<Sym>, x: &mut Vector<Sym>, iters: usize, tol: Sym) -> Result<usize, Sym> {
    match solver {
        "cg" => a.solve_cg(b, x, iters, tol),
        "bicg1" => a.solve_bicg(b, x, iters, tol, 1),
        "bicg2" => a.solve_bicg(b, x, iters, tol, 2),
        "bicgstab" => a.solve_bicgstab(b, x, iters, tol),
        "qmr" => a.solve_qmr(b, x, iters, tol),
        _ => panic!("unknown solver"),
    }
}

/// ||b - A x||_2 (true residual from the dense copy) and the norm the solver divides by
fn true_residual(dense: &[Vec<Sym>], b: &[Sym], x: &[Sym]) -> (Sym, Sym) {
    let n = b.len();
    let mut rr = z();
    let mut bb = z();
    for i in 0..n { let ri = b[i] - dotv(&dense[i], x); rr = rr + ri * ri; bb = bb + b[i] * b[i]; }
    (rr, bb)
}

/// The success exit is guarded by a test  sqrt(S)/N <= tol  (or <).  Decide the property in three solver steps:
///  (1) S, read off the term of that last decision, equals ||b - A x||^2 for the final x (the residual recurrence
///      tracks the true residual) - a polynomial identity over the path's quotient variables;
///  (2) N is sqrt(||b||^2), or the constant 1 on a path where ||b|| = 0 was decided;
///  (3) abstractly, sqrt(S)/N <= tol with tol >= 0 implies S <= tol^2 N^2.
/// Returns false when the last decision does not have that shape (then the caller asks for the goal directly).
fn chain(solver: &str, k: usize, rr: Sym, bb: Sym, tol: Sym) -> bool {
    let (atom, val) = match last_decision() { Some(x) => x, None => return false };
    note(format!("last decision: {:?} = {}", atom, val));
    // `resid <= tol` is !(tol < resid); `resid < tol` is (resid < tol)
    let resid = match (&atom, val) { (B::Lt(t, r), false) if *t == tol.id() => Sym::from_id(*r), (B::Lt(r, t), true) if *t == tol.id() => Sym::from_id(*r), _ => return false };
    note(format!("resid = {}", resid.show()));
    let (num, den) = match node_of(resid) {
        Node::Div(n, d) => (Sym::from_id(n), Sym::from_id(d)),
        Node::Sqrt(_) => (resid, Sym::lit(1.0)), // divided by the constant 1 (zero right-hand side)
        _ => return false,
    };
    let s_term = match node_of(num) { Node::Sqrt(t) => Sym::from_id(t), _ => return false };
    let ok = |p: Proof| p == Proof::Solver || p == Proof::Syntactic;
    let mut all = ok(prove_eq(&format!("{}: Ok implies solved to the tolerance :: Ok({}): the tested residual norm^2 equals ||b - A x||^2 of the returned x", solver, k), s_term, rr));
    let one = den.const_val().map(|c| c == CVal::R(Rat::ONE)).unwrap_or(false);
    if one {
        all &= ok(prove(&format!("{}: Ok implies solved to the tolerance :: Ok({}): the norm of b was replaced by 1 only because b = 0", solver, k), eq(bb, z())));
    } else {
        match node_of(den) { Node::Sqrt(t) => { all &= ok(prove_eq(&format!("{}: Ok implies solved to the tolerance :: Ok({}): the test divides by ||b||", solver, k), Sym::from_id(t), bb)); all &= ok(prove(&format!("{}: Ok implies solved to the tolerance :: Ok({}): ||b|| != 0 on this path", solver, k), ne(bb, z()))); } _ => return false }
    }
    // abstract step on fresh values
    let (s2, n2, s, nn, v, t) = (Sym::var("S"), Sym::var("N2"), Sym::var("s"), Sym::var("n"), Sym::var("v"), Sym::var("t"));
    let hyp = B::and(vec![le(z(), s), eq(s * s, s2), le(z(), nn), eq(nn * nn, n2), ne(nn, z()), eq(v * nn, s), le(v, t), le(z(), t)]);
    all &= ok(prove_closed("norm step: sqrt(S)/N <= t and t >= 0 imply S <= t^2 N^2", B::implies(hyp, le(s2, t * t * n2))));
    all
}

pub fn body(inst: &str) {
    let (_, p) = parse_inst(inst);
    let (solver, n, iters) = (p["solver"].clone(), geti(&p, "n"), geti(&p, "iters"));
    let (a, dense) = build(n, &p["pat"]);
    let zero_rhs = p.get("rhs").map(|s| s == "zero").unwrap_or(false);
    let b = if zero_rhs { vec![z(); n] } else { var_vec("b", n) };
    let x0 = var_vec("x", n);
    let tol = Sym::var("tol");
    assume(le(z(), tol));
    if !zero_rhs { let mut bb = z(); for v in &b { bb = bb + *v * *v; } assume(ne(bb, z())); }
    let bv = Vector::create(b.clone());
    let mut xv = Vector::create(x0.clone());
    let r = catch(|| call(&solver, &a, &bv, &mut xv, iters, tol));
    let x: Vec<Sym> = (0..xv.size()).map(|i| xv[i]).collect();
    match r {
        Ok(Ok(k)) => {
            prove(&format!("{}: reported iteration count {} does not exceed max_iter {}", solver, k, iters), if k <= iters { B::True } else { B::False });
            // ||b - A x|| <= tol * ||b||'   with ||b||' = ||b|| or 1 when b = 0  (squared, both sides >= 0)
            let (rr, bb) = true_residual(&dense, &b, &x);
            let goal = B::or(vec![
                B::and(vec![ne(bb, z()), le(rr, tol * tol * bb)]),
                B::and(vec![eq(bb, z()), le(rr, tol * tol)]),
            ]);
            if !chain(&solver, k, rr, bb, tol) {
                // the stopping test is not of the recognised form: ask the solver for the goal directly
                prove(&format!("{}: Ok implies solved to the tolerance :: Ok({}): true relative residual <= tol", solver, k), goal);
            }
            if k == 0 { let same = x.len() == n && (0..n).all(|i| x[i].same(x0[i])); prove(&format!("{}: Ok(0) leaves x untouched", solver), if same { B::True } else { B::False }); }
        }
        Ok(Err(_)) => {
            if iters == 0 { let same = x.len() == n && (0..n).all(|i| x[i].same(x0[i])); prove(&format!("{}: an iteration budget of zero leaves x untouched", solver), if same { B::True } else { B::False }); }
            else { check_that(true, || String::new()); }
        }
        Err(Stop::DivZero { .. }) => { check_that(true, || String::new()); note(format!("{}: breakdown path (zero divisor): cannot report Ok in IEEE arithmetic either (NaN fails every <= test); path ends", solver)); }
        Err(st) => must_not_stop(&format!("{}: must not panic", solver), &st),
    }
}

pub fn body_c09(inst: &str) {
    let (kind, p) = parse_inst(inst);
    let (solver, n, iters) = (p["solver"].clone(), geti(&p, "n"), geti(&p, "iters"));
    let (a, dense) = build(n, "full");
    let x0 = var_vec("x", n);
    let tol = Sym::var("tol");
    assume(le(z(), tol));
    let (b, x0): (Vec<Sym>, Vec<Sym>) = match kind.as_str() {
        "exact" => ((0..n).map(|i| dotv(&dense[i], &x0)).collect(), x0),
        "zero" => (vec![z(); n], vec![z(); n]),
        _ => { assume(lt(z(), dense[0][0])); (var_vec("b", n), x0) }
    };
    let bv = Vector::create(b.clone());
    let mut xv = Vector::create(x0.clone());
    let r = catch(|| call(&solver, &a, &bv, &mut xv, iters, tol));
    let x: Vec<Sym> = (0..xv.size()).map(|i| xv[i]).collect();
    let what = match kind.as_str() { "exact" => "an initial guess that already solves the system", "zero" => "a zero right-hand side with a zero guess", _ => "a 1x1 system with positive coefficient" };
    match r {
        Ok(Ok(k)) => {
            if kind == "one" {
                prove(&format!("{}: n = 1 converges within one iteration", solver), if k <= 1 { B::True } else { B::False });
                if k == 1 { prove(&format!("{}: n = 1 returns x = b/a", solver), eq(x[0] * dense[0][0], b[0])); }
            } else {
                let same = (0..n).all(|i| x[i].same(x0[i]));
                if !same { for i in 0..n { prove(&format!("{}: {} - x[{}] stays a solution", solver, what, i), eq(dotv(&dense[i], &x), b[i])); } }
                else { check_that(true, || String::new()); }
            }
        }
        Ok(Err(_)) => { prove(&format!("{}: {} must be accepted as solved (got Err)", solver, what), B::False); }
        Err(st) => must_not_stop(&format!("{}: {} must be accepted as solved and x stay finite", solver, what), &st),
    }
}
