//! C10 - root finder: closed-form paths (degree 1..3); degree 0 rejected.
use super::*;
use crate::util::*;
use ohsl_sym::{Cmplx, Polynomial};
use symcore::*;

pub fn instances(tier: &str) -> Vec<String> {
    let mut v: Vec<String> = vec!["deg0".into(), "deg1_real".into(), "deg1_cmplx".into(), "deg2_real".into(), "deg2_cmplx".into(), "deg3_triple".into(), "deg1_real_refine".into()];
    if tier == "thorough" { v.push("deg3_real".into()); v.push("deg2_real_refine".into()); }
    v
}

pub fn configure(inst: &str, cfg: &mut Config) {
    if inst.starts_with("deg2") || inst.starts_with("deg3") { cfg.stubs = vec!["csqrt".into(), "ccbrt".into()]; }
}

fn z() -> Sym { Sym::lit(0.0) }

/// p(root) = 0 as a complex identity, Horner-free
fn is_root(tag: &str, coeffs: &[Cmplx], root: Cmplx) {
    let mut acc = Cmplx::new(z(), z());
    let mut pw = Cmplx::new(Sym::lit(1.0), z());
    for c in coeffs { acc = acc + *c * pw; pw = pw * root; }
    prove(&format!("{}: real part of p(root) is zero", tag), eq(acc.real, z()));
    prove(&format!("{}: imaginary part of p(root) is zero", tag), eq(acc.imag, z()));
}

pub fn body(inst: &str) {
    let real = inst.contains("real");
    let refine = inst.ends_with("refine");
    let deg = match &inst[..4] { "deg0" => 0, "deg1" => 1, "deg2" => 2, _ => 3 };
    let cre = var_vec("c", deg + 1);
    let cim = var_vec("ci", deg + 1);
    let coeffs: Vec<Cmplx> = (0..=deg).map(|k| Cmplx::new(cre[k], if real { z() } else { cim[k] })).collect();
    if deg >= 1 {
        // leading coefficient nonzero
        if real { assume(ne(cre[deg], z())); } else { assume(B::or(vec![ne(cre[deg], z()), ne(cim[deg], z())])); }
    }
    let run = || if real { Polynomial::<Sym>::new(cre.clone()).roots(refine) } else { Polynomial::<Cmplx>::new(coeffs.clone()).roots(refine) };
    match inst {
        "deg0" => {
            match catch(|| Polynomial::<Sym>::new(cre.clone()).roots(false)) { Ok(_) => { prove("a degree-0 polynomial is rejected (real)", B::False); } Err(Stop::Panic { .. }) => { prove("degree 0 rejected", B::True); } Err(st) => must_not_stop("deg0", &st) }
            match catch(|| Polynomial::<Cmplx>::new(coeffs.clone()).roots(true)) { Ok(_) => { prove("a degree-0 polynomial is rejected (complex)", B::False); } Err(Stop::Panic { .. }) => { prove("degree 0 rejected", B::True); } Err(st) => must_not_stop("deg0", &st) }
        }
        "deg3_triple" => {
            // the three-equal-roots branch: d0 = b^2 - 3ac = 0 and d1 = 2b^3 - 9abc + 27a^2 d = 0
            let (a, b, c, d) = (coeffs[3], coeffs[2], coeffs[1], coeffs[0]);
            let three = Sym::lit(3.0);
            let d0 = b * b - a * c * three;
            let d1 = b * b * b * Sym::lit(2.0) - a * b * c * Sym::lit(9.0) + a * a * d * Sym::lit(27.0);
            assume(eq(d0.real, z())); assume(eq(d0.imag, z())); assume(eq(d1.real, z())); assume(eq(d1.imag, z()));
            match catch(run) {
                Ok(r) => {
                    prove("exactly 3 values are returned", if r.size() == 3 { B::True } else { B::False });
                    if r.size() == 3 { for k in 0..3 { is_root(&format!("triple root {}", k), &coeffs, r[k]); } }
                }
                Err(st) => must_not_stop("cubic with a triple root: finite roots must be returned", &st),
            }
        }
        _ => {
            match catch(run) {
                Ok(r) => {
                    prove(&format!("exactly {} values are returned", deg), if r.size() == deg { B::True } else { B::False });
                    if r.size() == deg { for k in 0..deg { is_root(&format!("degree {} root {}", deg, k), &coeffs, r[k]); } }
                    if deg == 2 && r.size() == 2 {
                        // Vieta: the two values are the two roots (with multiplicity), not the same root twice
                        let s = r[0] + r[1];
                        let lhs = coeffs[2] * s + coeffs[1];
                        prove("quadratic: sum of the returned values = -b/a (real part)", eq(lhs.real, z()));
                        prove("quadratic: sum of the returned values = -b/a (imaginary part)", eq(lhs.imag, z()));
                    }
                }
                Err(st) => must_not_stop(&format!("degree {} with nonzero leading coefficient: finite roots must be returned", deg), &st),
            }
        }
    }
}
