//! C10 - root finder: closed-form paths (degree 1..3); degree 0 rejected.
use super::*;
use crate::util::*;
use ohsl_sym::{Cmplx, Polynomial, Vector};
use symcore::*;

pub fn instances(tier: &str) -> Vec<String> {
    let mut v: Vec<String> = vec!["deg0".into(), "deg1_real".into(), "deg1_cmplx".into(), "deg2_real".into(), "deg2_cmplx".into(), "deg3_triple".into(), "deg1_real_refine".into()];
    v.push("deg4_deflation".into()); // driver + deflation of the iterative path, Laguerre through its contract
    v.push("deg5_deflation".into());
    v.push("deg3_real".into()); // general Cardano branch, real coefficients (complex coefficients: path decisions do not finish)
    v.push("deg3_cmplx_pure".into()); // a x^3 + d with complex a, d: the Cardano sign choice at d0 = 0, where base = d1 +- sqrt(d1^2) must not cancel
    if tier == "thorough" { v.push("deg2_real_refine".into()); }
    // the real Laguerre iteration, ONE pass from an arbitrary iterate (inductive step of the loop; section 4 of DESIGN.md)
    for side in ["p", "m", "exit"] {
        v.push(format!("laguer_pass:m=2,co=cmplx,side={}", side));
        if tier == "thorough" { for m in 3..=6 { v.push(format!("laguer_pass:m={},co=cmplx,side={}", m, side)); } }
    }
    v
}

pub fn configure(inst: &str, cfg: &mut Config) {
    // the square-root stub leaves the sign open on the branch cut (f64: decided by the sign of a zero)
    if inst.starts_with("deg2") || inst.starts_with("deg3") { cfg.stubs = vec!["csqrt".into(), "ccbrt".into(), "csqrt_signed_zero".into()]; }
    // (under the 16-way fan-out one of its hypotheses needs more than the 10 s quick cap; without this the instance is
    //  retried sequentially, which costs four minutes)
    if inst == "deg3_cmplx_pure" { cfg.prove_timeout_ms = cfg.prove_timeout_ms.max(40000); }
    if inst.contains("deflation") { cfg.stubs = vec!["laguer".into()]; }
    if inst.starts_with("laguer_pass") { cfg.stubs = vec!["csqrt".into()]; cfg.decide_timeout_ms = cfg.decide_timeout_ms.min(1500); }
}

fn z() -> Sym { Sym::lit(0.0) }

fn cz() -> Cmplx { Cmplx::new(z(), z()) }

/// Nullstellensatz-style certificate over the complex field: to show g = 0 from hypotheses h_i = 0 and m != 0,
/// the harness supplies cofactors c_i with  g*m = sum c_i*h_i  as a polynomial IDENTITY.  The solver decides
/// (1) the identity (both parts), (2) each h_i = 0 under the path condition, (3) m != 0 under the path condition,
/// and (4) once, the abstract field step  G*M = 0 /\ M != 0 => G = 0.  Returns true when all of it is discharged.
fn certificate(tag: &str, g: Cmplx, m: Cmplx, hyps: &[(Cmplx, Cmplx)]) -> bool {
    if is_concrete() {
        // concrete replay: the statement itself, on the actual numbers (same obligation group)
        prove(&format!("{} :: concrete residual", tag), B::and(vec![eq(g.real, z()), eq(g.imag, z())]));
        return true;
    }
    let mut rhs = cz();
    for (h, c) in hyps { rhs = rhs + *c * *h; }
    let lhs = g * m;
    let p1 = prove_eq(&format!("{} :: certificate identity (real part)", tag), lhs.real, rhs.real);
    let p2 = prove_eq(&format!("{} :: certificate identity (imaginary part)", tag), lhs.imag, rhs.imag);
    // a refuted piece already is a counterexample candidate: report "handled" so that the caller does not add the
    // (expensive) direct query on top of it
    if p1 == Proof::Failed || p2 == Proof::Failed { return true; }
    let ok = |p: Proof| p == Proof::Solver || p == Proof::Syntactic;
    ok(p1) && ok(p2) && hypotheses_and_factors(tag, hyps, &[m])
}

fn hypotheses_and_factors(tag: &str, hyps: &[(Cmplx, Cmplx)], factors: &[Cmplx]) -> bool {
    let ok = |p: Proof| p == Proof::Solver || p == Proof::Syntactic;
    let mut all = true;
    let mut refuted = false;
    for (k, (h, _)) in hyps.iter().enumerate() {
        for (part, t) in [("real", h.real), ("imaginary", h.imag)] {
            let p = prove(&format!("{} :: hypothesis {} vanishes ({} part)", tag, k, part), eq(t, z()));
            refuted |= p == Proof::Failed;
            all &= ok(p);
        }
    }
    for (k, m) in factors.iter().enumerate() {
        let p = prove(&format!("{} :: multiplier factor {} is nonzero", tag, k), B::or(vec![ne(m.real, z()), ne(m.imag, z())]));
        refuted |= p == Proof::Failed;
        all &= ok(p);
    }
    if refuted { return true; }
    // the field step, on abstract values
    let (gr, gi, mr, mi) = (Sym::var("G.re"), Sym::var("G.im"), Sym::var("M.re"), Sym::var("M.im"));
    let step = B::implies(B::and(vec![eq(gr * mr - gi * mi, z()), eq(gr * mi + gi * mr, z()), B::or(vec![ne(mr, z()), ne(mi, z())])]), B::and(vec![eq(gr, z()), eq(gi, z())]));
    all &= ok(prove_closed("complex field step: G*M = 0 and M != 0 imply G = 0", step));
    all
}

/// Cardano, as a certificate.  With C a cube root of beta, L = d0/C, x = -(b + C + L)/(3a):
///   27 a^2 C^3 p(x) = C^3 (hx Q - 3 hL y) - hL (3 d0^2 + 3 d0 hL + hL^2) - hA + hC (d1 - 2 beta - hC)
/// where hx = 3ax + b + C + L, hL = L C - d0, hC = C^3 - beta, hA = beta^2 - d1 beta + d0^3, y = C + L,
/// Q = t^2 + t t0 + t0^2 + 3b(t + t0) + 9ac with t = 3ax, t0 = -b - y.  Returns (g, factors, [(h, cofactor)]).
fn cardano(a: Cmplx, b: Cmplx, c: Cmplx, d: Cmplx, x: Cmplx, cc: Cmplx, l: Cmplx, beta: Cmplx) -> (Cmplx, Vec<Cmplx>, Vec<(Cmplx, Cmplx)>) {
    let n = |k: f64| Sym::lit(k);
    let d0 = b * b - a * c * n(3.0);
    let d1 = b * b * b * n(2.0) - a * b * c * n(9.0) + a * a * d * n(27.0);
    let g = a * x * x * x + b * x * x + c * x + d;
    let y = cc + l;
    let hx = a * x * n(3.0) + b + cc + l;
    let hl = l * cc - d0;
    let c3 = cc * cc * cc;
    let hc = c3 - beta;
    let ha = beta * beta - d1 * beta + d0 * d0 * d0;
    let t = a * x * n(3.0);
    let t0 = -b - y;
    let q = t * t + t * t0 + t0 * t0 + b * (t + t0) * n(3.0) + a * c * n(9.0);
    let cof_x = c3 * q;
    let cof_l = -(c3 * y * n(3.0)) - (d0 * d0 * n(3.0) + d0 * hl * n(3.0) + hl * hl);
    let cof_a = Cmplx::new(n(-1.0), z());
    let cof_c = d1 - beta * n(2.0) - hc;
    (g, vec![a * a * n(27.0), cc, cc, cc], vec![(hx, cof_x), (hl, cof_l), (ha, cof_a), (hc, cof_c)])
}

/// p(root) = 0 as a complex identity, Horner-free
fn is_root(tag: &str, coeffs: &[Cmplx], root: Cmplx) {
    let mut acc = Cmplx::new(z(), z());
    let mut pw = Cmplx::new(Sym::lit(1.0), z());
    for c in coeffs { acc = acc + *c * pw; pw = pw * root; }
    prove(&format!("{}: real part of p(root) is zero", tag), eq(acc.real, z()));
    prove(&format!("{}: imaginary part of p(root) is zero", tag), eq(acc.imag, z()));
}

/// One pass of the REAL `laguer` loop from an arbitrary iterate x0 on an arbitrary polynomial of degree m (the stub is off;
/// only Complex::sqrt goes through its contract).  A fence cuts the call at the first decision of the second pass, so the
/// harness sees exactly what one pass did.  Two outcomes:
///  * the call returned during the first pass without moving x: then the test that let it return compared |p(x0)| (Horner value
///    = sum a_k x0^k) with EPS times the running error bound - the accepted value is a zero to within that backward error;
///  * the pass moved x to x1: then dx = x0 - x1 satisfies Laguerre's equation
///        (m p - p' dx)^2 = dx^2 (m-1) (m (p'^2 - p p'') - p'^2)      (p, p', p'' at x0, from the coefficient formulas)
///    with the root of larger modulus in the denominator,  |m p|^2 >= |2 p' dx - m p|^2,
///    unless p' = 0 and the discriminant vanishes (the code then takes a unit-circle step, not examined).
fn body_laguer(inst: &str) {
    let (_, pm) = parse_inst(inst);
    let m = geti(&pm, "m");
    let real = pm.get("co").map(|s| s == "real").unwrap_or(false);
    let cre = var_vec("c", m + 1);
    let cim = var_vec("ci", m + 1);
    let coeffs: Vec<Cmplx> = (0..=m).map(|k| Cmplx::new(cre[k], if real { z() } else { cim[k] })).collect();
    if real { assume(ne(cre[m], z())); } else { assume(B::or(vec![ne(cre[m], z()), ne(cim[m], z())])); }
    let x0 = Cmplx::new(Sym::var("x.re"), Sym::var("x.im"));
    // optional case split (one instance per side, run in parallel): which of G + sq, G - sq has the larger modulus
    if let Some(side) = pm.get("side") {
        let (mut b, mut d, mut f) = (coeffs[m], cz(), cz());
        for j in (0..m).rev() { f = x0 * f + d; d = x0 * d + b; b = x0 * b + coeffs[j]; }
        if side == "exit" {
            // only the paths that return during the first pass (|p(x0)| <= EPS * bound, p(x0) = 0 included)
            let mut err = coeffs[m].abs();
            let abx = x0.abs();
            let mut bb = coeffs[m];
            for j in (0..m).rev() { bb = x0 * bb + coeffs[j]; err = bb.abs() + abx * err; }
            assume(le(bb.abs(), err * Sym::lit(f64::EPSILON)));
        } else {
            // the paths that take a step: p(x0) != 0 there (|p(x0)| > EPS * bound >= 0)
            assume(B::or(vec![ne(b.real, z()), ne(b.imag, z())]));
            let g = d / b;
            let g2 = g * g;
            let h = g2 - (f / b) * Sym::lit(2.0);
            let sq = ((h * Sym::lit(m as f64) - g2) * Sym::lit((m - 1) as f64)).sqrt();
            let (abp, abm) = ((g + sq).abs(), (g - sq).abs());
            assume(if side == "m" { lt(abp, abm) } else { le(abm, abp) });
        }
    }
    let mut a = Vector::<Cmplx>::create(coeffs.clone());
    let mut x = x0;
    let mut its_cell: usize = 0;
    let its_ptr: *mut usize = &mut its_cell;
    // the fence reads the iteration counter that the library writes at the top of every pass
    set_fence(Some(Box::new(move || unsafe { std::ptr::read_volatile(its_ptr) } >= 2)));
    let r = catch(|| Polynomial::<Cmplx>::laguer(&mut a, &mut x, unsafe { &mut *its_ptr }));
    set_fence(None);
    let its = unsafe { std::ptr::read_volatile(its_ptr) };
    let tag = format!("laguer pass m={} {}", m, if real { "real coefficients" } else { "complex coefficients" });
    // the polynomial and its derivatives at x0 from the coefficient formulas (no Horner)
    let n = |k: usize| Sym::lit(k as f64);
    let (mut p0, mut p1, mut p2) = (cz(), cz(), cz());
    let mut pows = vec![Cmplx::new(Sym::lit(1.0), z())];
    for _ in 0..m { let l = *pows.last().unwrap(); pows.push(l * x0); }
    for k in 0..=m {
        p0 = p0 + coeffs[k] * pows[k];
        if k >= 1 { p1 = p1 + coeffs[k] * pows[k - 1] * n(k); }
        if k >= 2 { p2 = p2 + coeffs[k] * pows[k - 2] * n(k * (k - 1)); }
    }
    // Horner value and running error bound, re-implemented here
    let abx = x0.abs();
    let mut hb = coeffs[m];
    let mut herr = hb.abs();
    for j in (0..m).rev() { hb = x0 * hb + coeffs[j]; herr = hb.abs() + abx * herr; }
    let herr = herr * Sym::lit(f64::EPSILON);
    let coeffs_intact = a.size() == m + 1 && (0..=m).all(|k| a[k].real.same(coeffs[k].real) && a[k].imag.same(coeffs[k].imag));
    prove(&format!("{}: the coefficient vector is left as it was", tag), if coeffs_intact { B::True } else { B::False });
    match r {
        Ok(()) => {
            count_case();
            prove(&format!("{}: a return during the first pass reports iteration 1 (got {})", tag, its), if its == 1 { B::True } else { B::False });
            let unmoved = x.real.same(x0.real) && x.imag.same(x0.imag);
            prove(&format!("{}: a return during the first pass leaves x where it was", tag), if unmoved { B::True } else { B::False });
            let group = format!("{}: accepted without a step only if |p(x)| <= EPS * running error bound", tag);
            if is_concrete() {
                prove(&format!("{} :: concrete", group), le(p0.abs(), herr));
                return;
            }
            let shape = match last_decision() {
                Some((B::Lt(e, b), false)) | Some((B::Le(b, e), true)) => Some((Sym::from_id(b), Sym::from_id(e))),
                _ => None,
            };
            let arg = shape.and_then(|(babs, err)| match node_of(babs) { Node::Sqrt(t) => Some((Sym::from_id(t), err)), _ => None });
            match arg {
                Some((t, err)) => {
                    prove_eq(&format!("{} :: the tested modulus^2 is |Horner value|^2", group), t, hb.real * hb.real + hb.imag * hb.imag);
                    prove_eq(&format!("{} :: Horner value = sum a_k x^k (real part)", group), hb.real, p0.real);
                    prove_eq(&format!("{} :: Horner value = sum a_k x^k (imaginary part)", group), hb.imag, p0.imag);
                    prove_eq(&format!("{} :: the bound is EPS * (|b_0| + |x| (|b_1| + ...))", group), err, herr);
                }
                None => { prove(&format!("{} :: direct", group), le(p0.abs(), herr)); }
            }
        }
        Err(Stop::Fence) => {
            count_case();
            prove(&format!("{}: the fence fired at the top of pass 2 (counter {})", tag, its), if its == 2 { B::True } else { B::False });
            let group = format!("{}: the pass is a Laguerre step", tag);
            let mm = Sym::lit(m as f64);
            let m1 = Sym::lit((m - 1) as f64);
            if is_concrete() {
                // the statement itself on the actual numbers:  (m p - p' dx)^2 = dx^2 (m-1)(m(p'^2 - p p'') - p'^2),  larger denominator
                let dx = x0 - x;
                let lhs = { let t = p0 * mm - p1 * dx; t * t };
                let disc = ((p1 * p1 - p0 * p2) * mm - p1 * p1) * m1;
                let rhs = dx * dx * disc;
                let degenerate = B::and(vec![eq(p1.real, z()), eq(p1.imag, z()), eq(disc.real, z()), eq(disc.imag, z())]);
                let (big, small) = (p0 * mm, p1 * dx * Sym::lit(2.0) - p0 * mm);
                prove(&format!("{} :: concrete", group), B::or(vec![degenerate, B::and(vec![eq(lhs.real, rhs.real), eq(lhs.imag, rhs.imag),
                    le(small.real * small.real + small.imag * small.imag, big.real * big.real + big.imag * big.imag)])]));
                return;
            }
            // the step as the algorithm prescribes it, rebuilt here from x0 and the coefficients (its decisions are already on the path)
            let (mut b, mut d, mut f) = (coeffs[m], cz(), cz());
            for j in (0..m).rev() { f = x0 * f + d; d = x0 * d + b; b = x0 * b + coeffs[j]; }
            let g = d / b;
            let fb = f / b;
            let g2 = g * g;
            let h = g2 - fb * Sym::lit(2.0);
            let sq = ((h * mm - g2) * m1).sqrt();
            let (gplus, gminus) = (g + sq, g - sq);
            let (abp, abm) = (gplus.abs(), gminus.abs());
            let (gp, other) = if abp < abm { (gminus, gplus) } else { (gplus, gminus) };
            if !(Sym::max(abp, abm) > z()) { note(format!("{}: p' = 0 and zero discriminant: unit-circle step, not examined", tag)); check_that(true, || String::new()); return; }
            let dx = Cmplx::new(mm, z()) / gp;
            let x1 = x0 - dx;
            prove_eq(&format!("{} :: the new iterate is x - m/(G +- sqrt((m-1)(m H - G^2))) (real part)", group), x.real, x1.real);
            prove_eq(&format!("{} :: the new iterate is x - m/(G +- sqrt((m-1)(m H - G^2))) (imaginary part)", group), x.imag, x1.imag);
            // Horner recurrences deliver p, p', p''/2
            prove_eq(&format!("{} :: Horner b = p(x) (real part)", group), b.real, p0.real);
            prove_eq(&format!("{} :: Horner b = p(x) (imaginary part)", group), b.imag, p0.imag);
            prove_eq(&format!("{} :: Horner d = p'(x) (real part)", group), d.real, p1.real);
            prove_eq(&format!("{} :: Horner d = p'(x) (imaginary part)", group), d.imag, p1.imag);
            prove_eq(&format!("{} :: Horner 2f = p''(x) (real part)", group), f.real * Sym::lit(2.0), p2.real);
            prove_eq(&format!("{} :: Horner 2f = p''(x) (imaginary part)", group), f.imag * Sym::lit(2.0), p2.imag);
            // Laguerre's equation for dx, by certificate: with h1 = g b - d, h2 = fb b - f, h3 = sq^2 - (m-1)(m h - g^2), h4 = dx gp - m,
            // A = b dx (gp - g), E = h1 dx - b h4:
            //   (m b - d dx)^2 - dx^2 (m-1)(m(d^2 - 2 b f) - d^2)
            //        = [dx^2 (m-1)^2 (2d + h1) + dx (2A + E)] h1 - 2 m (m-1) b dx^2 h2 + b^2 dx^2 h3 - b (2A + E) h4
            let goal = { let t = b * mm - d * dx; t * t } - dx * dx * (((d * d - b * f * Sym::lit(2.0)) * mm - d * d) * m1);
            let h1 = g * b - d;
            let h2 = fb * b - f;
            let h3 = sq * sq - (h * mm - g2) * m1;
            let h4 = dx * gp - Cmplx::new(mm, z());
            let aa = b * dx * (gp - g);
            let ee = h1 * dx - b * h4;
            let two_a_e = aa * Sym::lit(2.0) + ee;
            let c1 = dx * dx * (m1 * m1) * (d * Sym::lit(2.0) + h1) + dx * two_a_e;
            let c2 = -(b * dx * dx * (mm * m1 * Sym::lit(2.0)));
            let c3 = b * b * dx * dx;
            let c4 = -(b * two_a_e);
            let good = certificate(&format!("{} :: Laguerre's equation (m p - p' dx)^2 = dx^2 (m-1)(m(p'^2 - p p'') - p'^2)", group), goal, Cmplx::new(Sym::lit(1.0), z()), &[(h1, c1), (h2, c2), (h3, c3), (h4, c4)]);
            if !good { prove(&format!("{} :: Laguerre's equation, asked directly", group), B::and(vec![eq(goal.real, z()), eq(goal.imag, z())])); }
            prove(&format!("{} :: the denominator of larger modulus is used", group), le(other.real * other.real + other.imag * other.imag, gp.real * gp.real + gp.imag * gp.imag));
        }
        Err(st) => must_not_stop(&format!("{}: one pass neither panics nor divides by zero", tag), &st),
    }
}

pub fn body(inst: &str) {
    if inst.starts_with("laguer_pass") { return body_laguer(inst); }
    let real = inst.contains("real");
    let refine = inst.ends_with("refine");
    let deg = match &inst[..4] { "deg0" => 0, "deg1" => 1, "deg2" => 2, "deg3" => 3, "deg4" => 4, _ => 5 };
    let cre = var_vec("c", deg + 1);
    let cim = var_vec("ci", deg + 1);
    let pure = inst.contains("pure");
    let coeffs: Vec<Cmplx> = (0..=deg).map(|k| if pure && k != 0 && k != deg { cz() } else { Cmplx::new(cre[k], if real { z() } else { cim[k] }) }).collect();
    if deg >= 1 {
        // leading coefficient nonzero
        if real { assume(ne(cre[deg], z())); } else { assume(B::or(vec![ne(cre[deg], z()), ne(cim[deg], z())])); }
    }
    let run = || if real { Polynomial::<Sym>::new(cre.clone()).roots(refine) } else { Polynomial::<Cmplx>::new(coeffs.clone()).roots(refine) };
    match inst {
        "deg4_deflation" | "deg5_deflation" | "deg4_deflation_refine" => {
            match catch(run) {
                Ok(r) => {
                    prove(&format!("exactly {} values are returned", deg), if r.size() == deg { B::True } else { B::False });
                    if is_concrete() {
                        // concrete replay (the real Laguerre iteration runs): every returned value must be a root of p
                        for j in 0..r.size().min(deg) {
                            let mut g = cz();
                            let mut pw = Cmplx::new(Sym::lit(1.0), z());
                            for c in &coeffs { g = g + *c * pw; pw = pw * r[j]; }
                            prove(&format!("degree {} root found by call {} :: concrete residual", deg, deg - 1 - j), B::and(vec![eq(g.real, z()), eq(g.imag, z())]));
                        }
                        return;
                    }
                    let calls = poly_stub_calls();
                    let expect_calls = if refine { 2 * deg } else { deg };
                    prove(&format!("one root-finder call per root{} (made {})", if refine { " plus one polishing call each" } else { "" }, calls.len()), if calls.len() == expect_calls { B::True } else { B::False });
                    if r.size() == deg && calls.len() == expect_calls {
                        // call i (0-based) produced poly_roots[deg-1-i] from the polynomial deflated i times.
                        // With h_i = (i-th deflated polynomial)(r_i) and r_k the k-th root found:
                        //     p(r_k) = sum_{i<=k} prod_{m<i} (r_k - r_m) * h_i        (synthetic division, remainders dropped)
                        let roots: Vec<Cmplx> = (0..deg).map(|i| Cmplx::new(calls[i].1, calls[i].2)).collect();
                        let heval = |i: usize| -> Cmplx { let cs = &calls[i].0; let mut acc = cz(); let mut pw = Cmplx::new(Sym::lit(1.0), z()); for (cr, ci) in cs { acc = acc + Cmplx::new(*cr, *ci) * pw; pw = pw * roots[i]; } acc };
                        for k in 0..(if refine { 0 } else { deg }) {
                            let mut g = cz();
                            let mut pw = Cmplx::new(Sym::lit(1.0), z());
                            for c in &coeffs { g = g + *c * pw; pw = pw * roots[k]; }
                            let mut hyps: Vec<(Cmplx, Cmplx)> = Vec::new();
                            let mut cof = Cmplx::new(Sym::lit(1.0), z());
                            for i in 0..=k { hyps.push((heval(i), cof)); cof = cof * (roots[k] - roots[i]); }
                            let good = certificate(&format!("degree {} root found by call {}", deg, k), g, Cmplx::new(Sym::lit(1.0), z()), &hyps);
                            if !good { is_root(&format!("degree {} root of call {}", deg, k), &coeffs, roots[k]); }
                            // the value stored in the result vector is that root (unless polishing replaced it by another root of p)
                            let stored = r[deg - 1 - k];
                            if !refine { prove(&format!("result[{}] is the root found by call {}", deg - 1 - k, k), B::and(vec![eq(stored.real, roots[k].real), eq(stored.imag, roots[k].imag)])); }
                        }
                        if refine {
                            // polishing runs against the UNDEFLATED polynomial: each final value is a root of p by the contract
                            for j in 0..deg {
                                let same_poly = calls[deg + j].0.len() == deg + 1 && (0..=deg).all(|t| calls[deg + j].0[t].0.same(coeffs[t].real) && calls[deg + j].0[t].1.same(coeffs[t].imag));
                                prove(&format!("polishing call {} is made against the original polynomial", j), if same_poly { B::True } else { B::False });
                                is_root(&format!("degree {} polished root {}", deg, j), &coeffs, r[j]);
                            }
                        }
                    }
                }
                Err(st) => must_not_stop(&format!("degree {}: n values must be returned", deg), &st),
            }
        }
        "deg0" => {
            match catch(|| Polynomial::<Sym>::new(cre.clone()).roots(false)) { Ok(_) => { prove("a degree-0 polynomial is rejected (real)", B::False); } Err(Stop::Panic { .. }) => { prove("degree 0 rejected", B::True); } Err(st) => must_not_stop("deg0", &st) }
            match catch(|| Polynomial::<Cmplx>::new(coeffs.clone()).roots(true)) { Ok(_) => { prove("a degree-0 polynomial is rejected (complex)", B::False); } Err(Stop::Panic { .. }) => { prove("degree 0 rejected", B::True); } Err(st) => must_not_stop("deg0", &st) }
        }
        "deg3_triple" => {
            // the three-equal-roots branch: d0 = b^2 - 3ac = 0 and d1 = 2b^3 - 9abc + 27a^2 d = 0
            let (a, b, c, d) = (coeffs[3], coeffs[2], coeffs[1], coeffs[0]);
            let three = Sym::lit(3.0);
            let d0 = b * b - a * c * three;
            let d1 = b * b * b * Sym::lit(2.0) - a * b * c * Sym::lit(9.0) + a * a * d * Sym::lit(27.0);
            assume(eq(d0.real, z())); assume(eq(d0.imag, z())); assume(eq(d1.real, z())); assume(eq(d1.imag, z()));
            match catch(run) {
                Ok(r) => {
                    prove("exactly 3 values are returned", if r.size() == 3 { B::True } else { B::False });
                    if r.size() == 3 { for k in 0..3 {
                        // certificate: with h = 3a w + b,  27 a^2 p(w) = d1 - 3 d0 h + h^3
                        let w = r[k];
                        let h = w * (a * three) + b;
                        let g = a * w * w * w + b * w * w + c * w + d;
                        let m = a * a * Sym::lit(27.0);
                        let one = Cmplx::new(Sym::lit(1.0), z());
                        if !certificate(&format!("triple root {}", k), g, m, &[(d1, one), (d0, h * Sym::lit(-3.0)), (h, h * h)]) { is_root(&format!("triple root {}", k), &coeffs, r[k]); }
                    } }
                }
                Err(st) => must_not_stop("cubic with a triple root: finite roots must be returned", &st),
            }
        }
        _ => {
            match catch(run) {
                Ok(r) => {
                    prove(&format!("exactly {} values are returned", deg), if r.size() == deg { B::True } else { B::False });
                    if r.size() == deg && deg == 3 {
                        cubic_paths(&coeffs, &[r[0], r[1], r[2]]);
                    } else if r.size() == deg {
                        if deg == 2 && !real {
                            // complex coefficients: the direct obligation for the root c/q is beyond nlsat; decide it through a certificate.
                            // q := a * root0  (root0 = q/a);  h2 := q^2 + b q + a c;  h1 := root1 * q - c
                            let (a, b, c) = (coeffs[2], coeffs[1], coeffs[0]);
                            is_root("degree 2 root 0", &coeffs, r[0]);
                            let q = a * r[0];
                            let h2 = q * q + b * q + a * c;
                            let h1 = r[1] * q - c;
                            let g = a * r[1] * r[1] + b * r[1] + c;
                            let cof1 = a * c * Sym::lit(2.0) + a * h1 + b * q;
                            if r[1].real.is_const() && r[1].imag.is_const() { is_root("degree 2 root 1 (q = 0 branch)", &coeffs, r[1]); }
                            else if certificate("degree 2 root 1 (c/q)", g, q * q, &[(h2, c), (h1, cof1)]) { check_that(true, || String::new()); }
                            else { is_root("degree 2 root 1", &coeffs, r[1]); }
                        } else {
                            for k in 0..deg { is_root(&format!("degree {} root {}", deg, k), &coeffs, r[k]); }
                        }
                    }
                    if deg == 2 && r.size() == 2 {
                        // Vieta: the two values are the two roots (with multiplicity), not the same root twice
                        let s = r[0] + r[1];
                        let lhs = coeffs[2] * s + coeffs[1];
                        prove("quadratic: sum of the returned values = -b/a (real part)", eq(lhs.real, z()));
                        prove("quadratic: sum of the returned values = -b/a (imaginary part)", eq(lhs.imag, z()));
                    }
                }
                Err(st) => if deg == 3 { must_not_stop(&"cubic: the three returned values are zeros of p :: finite values must come back", &st) } else { must_not_stop(&format!("degree {} with nonzero leading coefficient: finite roots must be returned", deg), &st) },
            }
        }
    }
}

/// Degree 3: decide p(x_k) = 0 for the three returned values on the current path.
fn cubic_paths(coeffs: &[Cmplx], roots: &[Cmplx; 3]) {
    let (a, b, c, d) = (coeffs[3], coeffs[2], coeffs[1], coeffs[0]);
    if is_concrete() {
        // concrete replay (stubs are off, the real sqrt/pow run): the statement itself, in both obligation groups
        for k in 0..3 {
            let w = roots[k];
            let g = a * w * w * w + b * w * w + c * w + d;
            let res = B::and(vec![eq(g.real, z()), eq(g.imag, z())]);
            prove(&format!("cubic: the three returned values are zeros of p :: root {} concrete residual", k), res);
        }
        return;
    }
    let calls = stub_calls();
    let cbrt = calls.iter().find(|s| s.0 == "ccbrt");
    let n = |k: f64| Sym::lit(k);
    let d0 = b * b - a * n(3.0) * c; // same expression order as the library: b2 - 3.*a*c
    match cbrt {
        None => {
            // three equal roots (d0 = d1 = 0 on this path): 27 a^2 p(w) = d1 - 3 d0 h + h^3 with h = 3aw + b
            let d1 = b * b * b * n(2.0) - a * b * c * n(9.0) + a * a * d * n(27.0);
            for k in 0..3 {
                let w = roots[k];
                let h = w * (a * n(3.0)) + b;
                let g = a * w * w * w + b * w * w + c * w + d;
                let one = Cmplx::new(n(1.0), z());
                if !certificate(&format!("cubic: the three returned values are zeros of p :: triple-root branch, root {}", k), g, a * a * n(27.0), &[(d1, one), (d0, h * n(-3.0)), (h, h * h)]) { is_root(&format!("cubic: the three returned values are zeros of p :: root {}", k), coeffs, w); }
            }
        }
        Some((_, bre, bim, kre, kim)) => {
            // the identity once, on abstract values (a pure polynomial identity in 8 complex unknowns)
            let f = |p: &str| Cmplx::new(Sym::var(&format!("{}.re", p)), Sym::var(&format!("{}.im", p)));
            let (ga, factors_a, hyps_a) = cardano(f("A"), f("B"), f("C"), f("D"), f("X"), f("Cc"), f("L"), f("Beta"));
            let mut lhs = ga;
            for m in &factors_a { lhs = lhs * *m; }
            let mut rhs = cz();
            for (h, cof) in &hyps_a { rhs = rhs + *cof * *h; }
            let okp = |p: Proof| p == Proof::Solver || p == Proof::Syntactic;
            let mut ident = okp(prove_closed("Cardano certificate identity (real part, abstract)", eq(lhs.real, rhs.real)));
            ident &= okp(prove_closed("Cardano certificate identity (imaginary part, abstract)", eq(lhs.imag, rhs.imag)));
            // the hypotheses on the library's own terms
            let beta = Cmplx::new(*bre, *bim);
            let kk = Cmplx::new(*kre, *kim);
            let u = Cmplx::new(n(-0.5), n(3.0).sqrt() / n(2.0));
            let u2 = u * u;
            let cs = [kk, u * kk, u2 * kk];
            for k in 0..3 {
                let cc = cs[k];
                let l = d0 / cc;
                let (_g, factors, hyps) = cardano(a, b, c, d, roots[k], cc, l, beta);
                let good = ident && hypotheses_and_factors(&format!("cubic: the three returned values are zeros of p :: Cardano root {}", k), &hyps, &[factors[0], factors[1]]);
                if good { check_that(true, || String::new()); } else { is_root(&format!("cubic: the three returned values are zeros of p :: root {}", k), coeffs, roots[k]); }
            }
        }
    }
}
