//! C11 - polynomial arithmetic, evaluation and differentiation obey ring and calculus laws.
use super::*;
use crate::util::*;
use ohsl::Polynomial;
use symcore::*;

pub fn instances(tier: &str) -> Vec<String> {
    let mut v = Vec::new();
    let (cmax, emax) = if tier == "thorough" { (9, 6) } else { (6, 4) };
    for la in 0..=cmax { for lb in 0..=cmax { v.push(format!("coeffs:la={},lb={}", la, lb)); } }
    for la in 0..=emax { for lb in 0..=emax { v.push(format!("laws:la={},lb={}", la, lb)); } }
    for la in 1..=(if tier == "thorough" { 5 } else { 4 }) { v.push(format!("trim:la={}", la)); }
    v
}

fn z() -> Sym { Sym::lit(0.0) }

fn expect_poly(tag: &str, p: &Polynomial<Sym>, model: &[Sym]) {
    let ok = p.size() == model.len();
    prove(&format!("{}: has {} coefficients", tag, model.len()), if ok { B::True } else { B::False });
    if !ok { return; }
    let deg_ok = match p.degree() { Ok(d) => model.len() > 0 && d + 1 == model.len(), Err(_) => model.is_empty() };
    prove(&format!("{}: degree() consistent", tag), if deg_ok { B::True } else { B::False });
    for k in 0..model.len() { prove_eq(&format!("{}: coefficient {}", tag, k), p[k], model[k]); }
}

fn horner_free(c: &[Sym], x: Sym) -> Sym {
    // sum a_k x^k, written without Horner's scheme
    let mut acc = z();
    let mut pw = Sym::lit(1.0);
    for k in 0..c.len() { acc = acc + c[k] * pw; pw = pw * x; }
    acc
}

pub fn body(inst: &str) {
    let (kind, p) = parse_inst(inst);
    let (la, lb) = (geti(&p, "la"), geti(&p, "lb"));
    let a = var_vec("a", la);
    let b = var_vec("b", lb);
    let pa = || Polynomial::new(a.clone());
    let pb = || Polynomial::new(b.clone());
    let s = Sym::var("s");
    let x = Sym::var("x");
    match kind.as_str() {
        "coeffs" => {
            let n = la.max(lb);
            let at = |v: &Vec<Sym>, k: usize| if k < v.len() { v[k] } else { z() };
            let sum: Vec<Sym> = (0..n).map(|k| at(&a, k) + at(&b, k)).collect();
            let dif: Vec<Sym> = (0..n).map(|k| at(&a, k) - at(&b, k)).collect();
            let prod: Vec<Sym> = if la == 0 || lb == 0 { vec![] } else { (0..la + lb - 1).map(|k| { let mut acc = z(); for i in 0..la { if k >= i && k - i < lb { acc = acc + a[i] * b[k - i]; } } acc }).collect() };
            must("&p + &q", || &pa() + &pb(), |r| expect_poly("&p + &q", &r, &sum));
            must("p + q", || pa() + pb(), |r| expect_poly("p + q", &r, &sum));
            must("&p - &q", || &pa() - &pb(), |r| expect_poly("&p - &q", &r, &dif));
            must("p - q", || pa() - pb(), |r| expect_poly("p - q", &r, &dif));
            must("&p * &q", || &pa() * &pb(), |r| expect_poly("&p * &q", &r, &prod));
            must("p * q", || pa() * pb(), |r| expect_poly("p * q", &r, &prod));
            if lb == 0 {
                let neg: Vec<Sym> = a.iter().map(|c| -*c).collect();
                let scal: Vec<Sym> = a.iter().map(|c| *c * s).collect();
                must("-&p", || -&pa(), |r| expect_poly("-&p", &r, &neg));
                must("-p", || -pa(), |r| expect_poly("-p", &r, &neg));
                must("&p * s", || &pa() * s, |r| expect_poly("&p * s", &r, &scal));
                must("p * s", || pa() * s, |r| expect_poly("p * s", &r, &scal));
                must("clone", || pa().clone(), |r| expect_poly("clone", &r, &a));
                if la == 0 {
                    // "the empty polynomial acts as zero" under evaluation and differentiation
                    must("eval of the empty polynomial", || pa().eval(x), |r| { prove_eq("the empty polynomial evaluates to zero at every point", r, z()); });
                    must("derivative of the empty polynomial", || pa().derivative(), |r| expect_poly("derivative of the empty polynomial is the zero polynomial", &r, &[]));
                    for order in 0..=2 {
                        must(&format!("derivative_n({}) of the empty polynomial", order), || pa().derivative_n(order), |r| expect_poly(&format!("derivative_n({}) of the empty polynomial", order), &r, &[]));
                        must(&format!("derivative_at(x, {}) of the empty polynomial", order), || pa().derivative_at(x, order), |r| { prove_eq(&format!("derivative_at(x, {}) of the empty polynomial is zero", order), r, z()); });
                    }
                }
                if la >= 1 {
                    // derivative orders 0 ..= degree+1
                    let mut cur = a.clone();
                    for order in 0..=la {
                        must(&format!("derivative_n({}) of a degree-{} polynomial", order, la - 1), || pa().derivative_n(order), |r| expect_poly(&format!("derivative_n({})", order), &r, &cur));
                        let val = horner_free(&cur, x);
                        must(&format!("derivative_at(x, {}) of a degree-{} polynomial", order, la - 1), || pa().derivative_at(x, order), |r| { prove_eq(&format!("derivative_at(x, {}) equals the value of the order-{} derivative", order, order), r, val); });
                        cur = (1..cur.len()).map(|k| Sym::lit(k as f64) * cur[k]).collect();
                    }
                    must("derivative", || pa().derivative(), |r| expect_poly("derivative", &r, &(1..la).map(|k| Sym::lit(k as f64) * a[k]).collect::<Vec<_>>()));
                    must("eval", || pa().eval(x), |r| { prove_eq("eval(x) = sum a_k x^k", r, horner_free(&a, x)); });
                    if la == 3 { must("quadratic", || Polynomial::quadratic(a[2], a[1], a[0]), |r| expect_poly("quadratic(a,b,c)", &r, &a)); }
                    if la == 4 { must("cubic", || Polynomial::cubic(a[3], a[2], a[1], a[0]), |r| expect_poly("cubic(a,b,c,d)", &r, &a)); }
                }
            }
            if la > 0 && lb > 0 { control("coeffs control", eq(a[0] + b[0], a[0] * b[0])); }
        }
        "laws" => {
            // values of results equal the same combination of the operands' values
            let va = horner_free(&a, x);
            let vb = horner_free(&b, x);
            // (the empty polynomial evaluates to zero: "the empty polynomial acts as zero")
            let ev = |p: &Polynomial<Sym>| -> Sym { p.eval(x) };
            must("eval(p + q)", || ev(&(&pa() + &pb())), |r| { prove_eq("eval(p+q, x) = eval(p,x) + eval(q,x)", r, va + vb); });
            must("eval(p - q)", || ev(&(&pa() - &pb())), |r| { prove_eq("eval(p-q, x) = eval(p,x) - eval(q,x)", r, va - vb); });
            must("eval(p * q)", || ev(&(&pa() * &pb())), |r| { prove_eq("eval(p*q, x) = eval(p,x) * eval(q,x)", r, va * vb); });
            must("eval(p * s)", || ev(&(&pa() * s)), |r| { prove_eq("eval(s*p, x) = s * eval(p,x)", r, s * va); });
            must("eval(-p)", || ev(&(-&pa())), |r| { prove_eq("eval(-p, x) = -eval(p,x)", r, -va); });
            if la >= 1 && lb >= 1 {
                // linearity of the derivative and the product rule, at a symbolic point
                let d = |p: &Polynomial<Sym>| -> Sym { p.derivative().eval(x) };
                must("(p+q)'", || (d(&(&pa() + &pb())), d(&pa()), d(&pb())), |(l, r1, r2)| { prove_eq("(p+q)'(x) = p'(x) + q'(x)", l, r1 + r2); });
                must("(s p)'", || (d(&(&pa() * s)), d(&pa())), |(l, r1)| { prove_eq("(s p)'(x) = s p'(x)", l, s * r1); });
                must("(p q)'", || (d(&(&pa() * &pb())), d(&pa()), d(&pb()), pa().eval(x), pb().eval(x)), |(l, da, db, ea, eb)| { prove_eq("(p q)'(x) = p'(x) q(x) + p(x) q'(x)", l, da * eb + ea * db); });
                // degrees combine
                must("degrees", || ((&pa() * &pb()).degree(), (&pa() + &pb()).degree()), |(dm, ds)| {
                    prove("deg(p*q) = deg p + deg q", if dm == Ok(la + lb - 2) { B::True } else { B::False });
                    prove("deg(p+q) = max(deg p, deg q) (before trimming)", if ds == Ok(la.max(lb) - 1) { B::True } else { B::False });
                });
                control("laws control", eq(va + vb, va * vb));
            }
        }
        "trim" => {
            // trim removes exactly the trailing zero coefficients (keeping at least one), is_zero <=> all zero
            let mut p = pa();
            let iz = catch(|| p.is_zero());
            match iz {
                Ok(flag) => {
                    let all_zero = B::and(a.iter().map(|c| eq(*c, z())).collect());
                    prove("is_zero() <=> every coefficient is zero", if flag { all_zero } else { all_zero.not() });
                }
                Err(st) => must_not_stop("is_zero", &st),
            }
            match catch(|| { p.trim(); p }) {
                Ok(t) => {
                    let m = t.size();
                    let ok = m >= 1 && m <= la;
                    prove("trim keeps between 1 and len coefficients", if ok { B::True } else { B::False });
                    if ok {
                        for k in 0..m { prove_eq(&format!("trim keeps coefficient {}", k), t[k], a[k]); }
                        for k in m..la { prove(&format!("trim only drops zero coefficients ({})", k), eq(a[k], z())); }
                        if m > 1 { prove("trim leaves a nonzero leading coefficient", ne(a[m - 1], z())); }
                    }
                }
                Err(st) => must_not_stop("trim", &st),
            }
            control("trim control", eq(a[0], a[0] + Sym::lit(1.0)));
        }
        _ => panic!("unknown C11 instance"),
    }
}
