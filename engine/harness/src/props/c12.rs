//! C12 - polynomial division: u = q*v + r, deg r < deg v, for every divisor with nonzero leading coefficient.
use super::*;
use crate::util::*;
use ohsl::Polynomial;
use symcore::*;

pub fn instances(tier: &str) -> Vec<String> {
    let mut v = Vec::new();
    let (umax, vmax) = if tier == "thorough" { (7, 5) } else { (5, 3) };
    // fp=1: the bit-precise float clause is checked too (cvc5 queries are seconds each, so on smaller sizes)
    let fp_ok = |la: usize, lb: usize| if tier == "thorough" { la <= 4 && lb <= 3 } else { la <= 3 && lb <= 2 };
    for la in 1..=umax { for lb in 1..=vmax { v.push(format!("div:la={},lb={},fp={}", la, lb, if fp_ok(la, lb) { 1 } else { 0 })); } }
    for lb in 0..=3 { v.push(format!("zero:la=3,lb={}", lb)); }
    // the Complex<f64> instantiation (the quotient of leading coefficients is a complex division)
    // (dividend length 4: two of ~10^4 identities stay `unknown` at the cap - outside the claim)
    let (cu, cv) = if tier == "thorough" { (3, 3) } else { (3, 2) };
    for la in 1..=cu { for lb in 1..=cv { v.push(format!("cdiv:la={},lb={}", la, lb)); } }
    v
}

fn z() -> Sym { Sym::lit(0.0) }

const FLOAT_LABEL: &str = "polydiv terminates with Ok for every float input (no reliance on exact cancellation of the leading term)";

fn complex_div(la: usize, lb: usize) {
    use ohsl_sym::{Cmplx, Polynomial as P2};
    let cv = |q: &str, n: usize| -> Vec<Cmplx> { (0..n).map(|k| Cmplx::new(Sym::var(&format!("{}r_{}", q, k)), Sym::var(&format!("{}i_{}", q, k)))).collect() };
    let (a, b) = (cv("u", la), cv("v", lb));
    let zero = Cmplx::new(z(), z());
    assume(B::or(vec![ne(b[lb - 1].real, z()), ne(b[lb - 1].imag, z())]));
    let (pu, pv) = (P2::<Cmplx>::new(a.clone()), P2::<Cmplx>::new(b.clone()));
    match catch(|| pu.polydiv(&pv)) {
        Ok(Ok((q, r))) => {
            let qc: Vec<Cmplx> = (0..q.size()).map(|k| q[k]).collect();
            let rc: Vec<Cmplx> = (0..r.size()).map(|k| r[k]).collect();
            let n = la.max(rc.len()).max(if qc.is_empty() { 0 } else { qc.len() + lb - 1 });
            for k in 0..n {
                let mut acc = if k < rc.len() { rc[k] } else { zero };
                for i in 0..qc.len() { if k >= i && k - i < lb { acc = acc + qc[i] * b[k - i]; } }
                let uk = if k < la { a[k] } else { zero };
                prove_eq(&format!("complex: u = q*v + r at coefficient {} (real part)", k), acc.real, uk.real);
                prove_eq(&format!("complex: u = q*v + r at coefficient {} (imaginary part)", k), acc.imag, uk.imag);
            }
            let small = rc.len() < lb;
            let rzero = B::and(rc.iter().flat_map(|c| vec![eq(c.real, z()), eq(c.imag, z())]).collect());
            prove("complex: r = 0 or deg r < deg v", if small { B::True } else { rzero });
            prove("complex: deg q = deg u - deg v when the quotient is not zero", if qc.len() <= 1 || qc.len() + lb - 1 <= la { B::True } else { B::False });
            let intact = (0..la).all(|k| pu[k].real.same(a[k].real) && pu[k].imag.same(a[k].imag)) && (0..lb).all(|k| pv[k].real.same(b[k].real) && pv[k].imag.same(b[k].imag));
            prove("complex: operands intact", if intact { B::True } else { B::False });
            control("cdiv control", eq(a[0].real, a[0].real + Sym::lit(1.0)));
        }
        Ok(Err(msg)) => { prove(&format!("complex: division by a polynomial with nonzero leading coefficient must succeed (got Err '{}')", msg), B::False); }
        Err(st) => must_not_stop("complex polydiv must not panic", &st),
    }
}

pub fn body(inst: &str) {
    let (kind, p) = parse_inst(inst);
    let (la, lb) = (geti(&p, "la"), geti(&p, "lb"));
    if kind == "cdiv" { return complex_div(la, lb); }
    let a = var_vec("u", la);
    let b = var_vec("v", lb);
    let pu = Polynomial::new(a.clone());
    let pv = Polynomial::new(b.clone());
    match kind.as_str() {
        "div" => {
            assume(ne(b[lb - 1], z()));
            match catch(|| pu.polydiv(&pv)) {
                Ok(Ok((q, r))) => {
                    // u = q*v + r, coefficient by coefficient (missing coefficients are zero)
                    let qc: Vec<Sym> = (0..q.size()).map(|k| q[k]).collect();
                    let rc: Vec<Sym> = (0..r.size()).map(|k| r[k]).collect();
                    let n = la.max(rc.len()).max(if qc.is_empty() { 0 } else { qc.len() + lb - 1 });
                    for k in 0..n {
                        let mut acc = if k < rc.len() { rc[k] } else { z() };
                        for i in 0..qc.len() { if k >= i && k - i < lb { acc = acc + qc[i] * b[k - i]; } }
                        let uk = if k < la { a[k] } else { z() };
                        prove_eq(&format!("u = q*v + r at coefficient {}", k), acc, uk);
                    }
                    let small = rc.len() < lb;
                    let rzero = B::and(rc.iter().map(|c| eq(*c, z())).collect());
                    prove("r = 0 or deg r < deg v", if small { B::True } else { rzero });
                    prove("deg q = deg u - deg v when the quotient is not zero", if qc.len() <= 1 || qc.len() + lb - 1 <= la { B::True } else { B::False });
                    control("div control", eq(a[0], a[0] + Sym::lit(1.0)));
                }
                Ok(Err(msg)) => {
                    if is_float() { prove(FLOAT_LABEL, B::False); }
                    else { prove(&format!("division by a polynomial with nonzero leading coefficient must succeed (got Err '{}')", msg), B::False); }
                }
                Err(st) => must_not_stop("polydiv must not panic", &st),
            }
            // "for every float input": wherever the loop took a coefficient to be zero only because it
            // cancels over the reals, the same term must be zero for all finite doubles in range.
            if !is_concrete() && geti(&p, "fp") == 1 {
                let mut dom: Vec<B> = Vec::new();
                for v in a.iter().chain(b.iter()) { dom.push(le(Sym::lit(1.0e-3), v.abs())); dom.push(le(v.abs(), Sym::lit(1.0e3))); }
                for (site, atom, pc) in implied_equalities() {
                    let f = site_fn(&site);
                    if f.ends_with("::trim") || f.ends_with("::is_zero") {
                        // hypotheses: the input domain and the branch facts of the path up to that test, read in FP
                        let mut hyp = dom.clone();
                        hyp.extend(pc.into_iter());
                        let shown = if let B::Eq(x, y) = &atom { format!("{} == {}", Sym { node: *x, lit: 0.0 }.show(), Sym { node: *y, lit: 0.0 }.show()) } else { String::new() };
                        let r = prove_fp(FLOAT_LABEL, &hyp, atom);
                        if r != Proof::Solver { note(format!("FP {:?} at {} ({}): {}", r, f, site, shown)); }
                    }
                }
            }
            // operands untouched
            let same = (0..la).all(|k| pu[k].same(a[k])) && (0..lb).all(|k| pv[k].same(b[k])) && pu.size() == la && pv.size() == lb;
            prove("polydiv leaves both operands intact", if same { B::True } else { B::False });
        }
        "zero" => {
            for c in &b { assume(eq(*c, z())); }
            match catch(|| pu.polydiv(&pv)) {
                Ok(Ok(_)) => { prove("division by the empty or all-zero polynomial must be reported as an error", B::False); }
                Ok(Err(_)) => { prove("division by zero polynomial reported", B::True); }
                Err(st) => must_not_stop("polydiv by zero must return Err, not panic", &st),
            }
            control("zero control", eq(a[0], a[0] + Sym::lit(1.0)));
        }
        _ => panic!("unknown C12 instance"),
    }
}
