//! C13 - complex arithmetic is exact field arithmetic; operator variants and ordering agree.
use super::*;
use crate::util::*;
use ohsl::Complex;
use ohsl::traits::{One, Zero};
use std::cmp::Ordering;
use symcore::*;

pub fn instances(_tier: &str) -> Vec<String> {
    vec!["field".into(), "variants".into(), "order".into(), "order3".into(), "mixed_f64".into()]
}

pub fn configure(inst: &str, cfg: &mut Config) {
    // bit-identity of operator variants is judged on the raw DAG: no algebraic simplification
    if inst == "variants" { cfg.simplify = false; }
}

type C = Complex<Sym>;
fn z() -> Sym { Sym::lit(0.0) }
fn cv(p: &str) -> (Sym, Sym) { (Sym::var(&format!("{}_re", p)), Sym::var(&format!("{}_im", p))) }
fn mk(p: (Sym, Sym)) -> C { Complex::new(p.0, p.1) }

fn expect_c(tag: &str, got: &C, re: Sym, im: Sym) {
    prove_eq(&format!("{}: real part", tag), got.real, re);
    prove_eq(&format!("{}: imaginary part", tag), got.imag, im);
}

/// Same value bit for bit: identical DAG (modulo commutativity of + and *), else a QF_FP equality for all finite doubles.
fn bit_identical(tag: &str, a: &C, b: &C, dom: &[B]) {
    for (part, x, y) in [("real", a.real, b.real), ("imag", a.imag, b.imag)] {
        if x.same(y) { count_case(); check_that(true, || String::new()); }
        else { prove_fp(&format!("{}: {} parts are bit-identical", tag, part), dom, B::or(vec![eq(x, y), B::and(vec![ne(x, x), ne(y, y)])])); }
    }
}

pub fn body(inst: &str) {
    let (a, b) = (cv("z"), cv("w"));
    let r = Sym::var("r");
    match inst {
        "field" => {
            expect_c("z + w", &(mk(a) + mk(b)), a.0 + b.0, a.1 + b.1);
            expect_c("z - w", &(mk(a) - mk(b)), a.0 - b.0, a.1 - b.1);
            expect_c("z * w", &(mk(a) * mk(b)), a.0 * b.0 - a.1 * b.1, a.0 * b.1 + a.1 * b.0);
            expect_c("-z", &(-mk(a)), -a.0, -a.1);
            expect_c("conj z", &mk(a).conj(), a.0, -a.1);
            prove_eq("abs_sqr z = re^2 + im^2", mk(a).abs_sqr(), a.0 * a.0 + a.1 * a.1);
            expect_c("z * conj z = |z|^2", &(mk(a) * mk(a).conj()), a.0 * a.0 + a.1 * a.1, z());
            expect_c("z + r", &(mk(a) + r), a.0 + r, a.1);
            expect_c("z - r", &(mk(a) - r), a.0 - r, a.1);
            expect_c("z * r", &(mk(a) * r), a.0 * r, a.1 * r);
            expect_c("z + 0 = z", &(mk(a) + C::zero()), a.0, a.1);
            expect_c("0 + z = z", &(C::zero() + mk(a)), a.0, a.1);
            expect_c("z * 1 = z", &(mk(a) * C::one()), a.0, a.1);
            expect_c("1 * z = z", &(C::one() * mk(a)), a.0, a.1);
            expect_c("z * 0 = 0", &(mk(a) * C::zero()), z(), z());
            expect_c("clone", &mk(a).clone(), a.0, a.1);
            // associativity / distributivity through the library on both sides
            let c = cv("u");
            let l = (mk(a) * mk(b)) * mk(c);
            let rr = mk(a) * (mk(b) * mk(c));
            expect_c("(z w) u = z (w u)", &l, rr.real, rr.imag);
            let l = mk(a) * (mk(b) + mk(c));
            let rr = mk(a) * mk(b) + mk(a) * mk(c);
            expect_c("z (w + u) = z w + z u", &l, rr.real, rr.imag);
            // division: defined for w != 0; q = z / w is the unique q with q * w = z
            must("z / r", || { assume(ne(r, z())); mk(a) / r }, |q| { prove_eq("(z / r) * r: real", q.real * r, a.0); prove_eq("(z / r) * r: imag", q.imag * r, a.1); });
            must("z / w", || { assume(B::or(vec![ne(b.0, z()), ne(b.1, z())])); mk(a) / mk(b) }, |q| {
                let back = q.clone() * mk(b);
                expect_c("(z / w) * w = z", &back, a.0, a.1);
                let den = b.0 * b.0 + b.1 * b.1;
                prove_eq("z / w real part times |w|^2", q.real * den, a.0 * b.0 + a.1 * b.1);
                prove_eq("z / w imag part times |w|^2", q.imag * den, a.1 * b.0 - a.0 * b.1);
                let one = mk(b) / mk(b);
                expect_c("w / w = 1", &one, Sym::lit(1.0), z());
            });
            control("field control", eq(a.0 * b.0, a.0 + b.0));
        }
        "variants" => {
            // the 14 compound-assignment / mixed variants against their binary forms
            let mut dom: Vec<B> = Vec::new();
            for v in [a.0, a.1, b.0, b.1, r] { dom.push(le(Sym::lit(1.0e-100), v.abs())); dom.push(le(v.abs(), Sym::lit(1.0e100))); }
            let mut t = mk(a); t += mk(b); bit_identical("z += w vs z + w", &t, &(mk(a) + mk(b)), &dom);
            let mut t = mk(a); t -= mk(b); bit_identical("z -= w vs z - w", &t, &(mk(a) - mk(b)), &dom);
            let mut t = mk(a); t *= mk(b); bit_identical("z *= w vs z * w", &t, &(mk(a) * mk(b)), &dom);
            let mut t = mk(a); t += r; bit_identical("z += r vs z + r", &t, &(mk(a) + r), &dom);
            let mut t = mk(a); t -= r; bit_identical("z -= r vs z - r", &t, &(mk(a) - r), &dom);
            let mut t = mk(a); t *= r; bit_identical("z *= r vs z * r", &t, &(mk(a) * r), &dom);
            // aliasing: z *= z must read the old real part
            let mut t = mk(a); t *= mk(a); bit_identical("z *= z vs z * z", &t, &(mk(a) * mk(a)), &dom);
            must("division variants", || {
                assume(B::or(vec![ne(b.0, z()), ne(b.1, z())]));
                assume(B::or(vec![ne(a.0, z()), ne(a.1, z())]));
                assume(ne(r, z()));
                let mut t1 = mk(a); t1 /= mk(b);
                let mut t2 = mk(a); t2 /= r;
                let mut t3 = mk(a); t3 /= mk(a);
                (t1, mk(a) / mk(b), t2, mk(a) / r, t3, mk(a) / mk(a))
            }, |(t1, q1, t2, q2, t3, q3)| {
                bit_identical("z /= w vs z / w", &t1, &q1, &dom);
                bit_identical("z /= r vs z / r", &t2, &q2, &dom);
                bit_identical("z /= z vs z / z", &t3, &q3, &dom);
            });
            // mixed real forms agree with promoting the real to a complex number (value-level, over the reals)
            control("variants control", eq(a.0, a.0 + Sym::lit(1.0)));
        }
        "mixed_f64" => {
            use ohsl_sym::Complex as C2;
            let zc = || C2::<Sym>::new(a.0, a.1);
            let p = r * zc();
            prove_eq("r * z: real", p.real, a.0 * r);
            prove_eq("r * z: imag", p.imag, a.1 * r);
            let q = zc() * r;
            prove("r * z and z * r are the same terms", if p.real.same(q.real) && p.imag.same(q.imag) { B::True } else { B::False });
            // promoting r to (r, 0) gives the same value as the mixed operators
            let rc = C2::<Sym>::new(r, z());
            let s1 = zc() + rc.clone();
            prove_eq("z + (r,0) = z + r: real", s1.real, a.0 + r); prove_eq("z + (r,0) = z + r: imag", s1.imag, a.1);
            let m1 = zc() * rc.clone();
            prove_eq("z * (r,0) = z * r: real", m1.real, a.0 * r); prove_eq("z * (r,0) = z * r: imag", m1.imag, a.1 * r);
            control("mixed control", eq(a.0, a.0 + Sym::lit(1.0)));
        }
        "order" => {
            let (zc, wc) = (mk(a), mk(b));
            let o = zc.partial_cmp(&wc);
            let o2 = wc.partial_cmp(&zc);
            let e = zc == wc;
            let e2 = wc == zc;
            check_that(o.is_some() && o2.is_some(), || "partial_cmp is total on NaN-free values".into());
            check_that(o.map(|x| x.reverse()) == o2, || format!("cmp(z,w) = {:?} but cmp(w,z) = {:?}: not antisymmetric", o, o2));
            check_that(e == (o == Some(Ordering::Equal)), || format!("z == w is {} but cmp(z,w) = {:?}", e, o));
            check_that(e == e2, || "equality is not symmetric".into());
            let (l, le_, g, ge_) = (zc < wc, zc <= wc, zc > wc, zc >= wc);
            let n = [l, e, g].iter().filter(|x| **x).count();
            check_that(n == 1, || format!("exactly one of <, =, > must hold (got < {} = {} > {})", l, e, g));
            check_that(le_ == (l || e) && ge_ == (g || e), || "<= / >= inconsistent with < = >".into());
            // lexicographic: decided by the real parts unless they are equal
            let expect = if a.0 < b.0 { Ordering::Less } else if a.0 > b.0 { Ordering::Greater } else if a.1 < b.1 { Ordering::Less } else if a.1 > b.1 { Ordering::Greater } else { Ordering::Equal };
            check_that(o == Some(expect), || format!("cmp(z,w) = {:?}, lexicographic order says {:?}", o, expect));
            check_that(mk(a) == mk(a) && mk(a).partial_cmp(&mk(a)) == Some(Ordering::Equal), || "reflexivity".into());
            control("order control", eq(a.0, a.0 + Sym::lit(1.0)));
        }
        "order3" => {
            let c = cv("u");
            let (zc, wc, uc) = (mk(a), mk(b), mk(c));
            let (o1, o2, o3) = (zc.partial_cmp(&wc), wc.partial_cmp(&uc), zc.partial_cmp(&uc));
            if o1 == Some(Ordering::Less) && o2 == Some(Ordering::Less) { check_that(o3 == Some(Ordering::Less), || "z < w and w < u but not z < u".into()); }
            if o1 == Some(Ordering::Equal) { check_that(o2 == o3, || "z = w but cmp(w,u) != cmp(z,u)".into()); }
            if o1 != Some(Ordering::Greater) && o2 != Some(Ordering::Greater) { check_that(o3 != Some(Ordering::Greater), || "z <= w and w <= u but z > u".into()); }
            control("order3 control", eq(a.0, a.0 + Sym::lit(1.0)));
        }
        _ => panic!("unknown C13 instance"),
    }
}
