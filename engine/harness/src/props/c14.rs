//! C14 - complex functions match their definitions, invert correctly, use principal branches
//! (reduced scope: the identities that the real-function axioms let the solver decide).
use super::*;
use crate::util::*;
use ohsl_sym::constant::{PI, PI_2};
use ohsl_sym::Cmplx;
use symcore::*;

pub fn instances(tier: &str) -> Vec<String> {
    let mut v: Vec<String> = ["exp_ln", "exp_laws", "sqrt", "polar", "trig", "trig_quot", "hyp", "hyp_quot", "bridge", "log"].iter().map(|s| s.to_string()).collect();
    v.push("inv_closed_forms".into()); v.push("inv_asin".into()); v.push("inv_acos".into()); v.push("inv_right".into()); v.push("inv_right_atanh".into());
    let _ = tier; v.push("pow".into());
    v
}

pub fn configure(inst: &str, cfg: &mut Config) {
    cfg.named_constants = true;
    cfg.real_search = (-4.0, 4.0);
    // the inverse functions are built from ln and sqrt: sqrt enters through its contract (decided for the real body in `sqrt`)
    if inst.starts_with("inv_") { cfg.stubs = vec!["csqrt".into()]; cfg.decide_timeout_ms = cfg.decide_timeout_ms.min(1500); }
}

fn z() -> Sym { Sym::lit(0.0) }
fn one() -> Sym { Sym::lit(1.0) }
fn cvar(p: &str) -> Cmplx { Cmplx::new(Sym::var(&format!("{}_re", p)), Sym::var(&format!("{}_im", p))) }
fn nonzero(c: Cmplx) -> B { B::or(vec![ne(c.real, z()), ne(c.imag, z())]) }
fn ceq(tag: &str, a: Cmplx, b: Cmplx) { prove(&format!("{}: real part", tag), eq(a.real, b.real)); prove(&format!("{}: imaginary part", tag), eq(a.imag, b.imag)); }
fn i_times(c: Cmplx) -> Cmplx { Cmplx::new(-c.imag, c.real) }

/// t is the reciprocal of c: decided as  t * |c|^2 = conj(c)  on the library's terms plus, once, the abstract
/// field step  u |c|^2 = Re c, v |c|^2 = -Im c, |c|^2 != 0  =>  (u + i v)(c) = 1  on fresh values.
fn reciprocal(tag: &str, t: Cmplx, c: Cmplx) {
    let den = c.real * c.real + c.imag * c.imag;
    prove(&format!("{}: real part times |.|^2", tag), eq(t.real * den, c.real));
    prove(&format!("{}: imaginary part times |.|^2", tag), eq(t.imag * den, -c.imag));
    let (u, v, a, b) = (Sym::var("U"), Sym::var("V"), Sym::var("A"), Sym::var("Bq"));
    let d = a * a + b * b;
    prove_closed("reciprocal step: u|c|^2 = Re c, v|c|^2 = -Im c, c != 0 imply (u+iv) c = 1",
        B::implies(B::and(vec![ne(d, z()), eq(u * d, a), eq(v * d, -b)]), B::and(vec![eq(u * a - v * b, one()), eq(u * b + v * a, z())])));
}

/// polynomial relations between the real-function values that occur in tanh(atanh z); t = ln r1 - ln r2, u = arg(1+z) - arg(1-z)
fn atanh_relations(r1: Sym, r2: Sym, x: Sym, y: Sym, bch: Sym, bsh: Sym, ch: Sym, sh: Sym, c2: Sym, s2: Sym, c: Sym, s: Sym) -> Vec<(&'static str, B)> {
    let two = Sym::lit(2.0);
    vec![("r1 > 0", lt(z(), r1)), ("r2 > 0", lt(z(), r2)), ("r1^2 = |1+z|^2", eq(r1 * r1, (one() + x) * (one() + x) + y * y)), ("r2^2 = |1-z|^2", eq(r2 * r2, (one() - x) * (one() - x) + y * y)),
        ("2 r1 r2 cosh t = r1^2 + r2^2", eq(two * r1 * r2 * bch, r1 * r1 + r2 * r2)), ("2 r1 r2 sinh t = r1^2 - r2^2", eq(two * r1 * r2 * bsh, r1 * r1 - r2 * r2)),
        ("2 cosh^2(t/2) = 1 + cosh t", eq(two * ch * ch, one() + bch)), ("2 sinh^2(t/2) = cosh t - 1", eq(two * sh * sh, bch - one())), ("2 sinh(t/2) cosh(t/2) = sinh t", eq(two * sh * ch, bsh)), ("cosh(t/2) > 0", lt(z(), ch)),
        ("r1 r2 cos u = (1+x)(1-x) - y^2", eq(r1 * r2 * c2, (one() + x) * (one() - x) - y * y)), ("r1 r2 sin u = 2y", eq(r1 * r2 * s2, two * y)),
        ("2 cos^2(u/2) = 1 + cos u", eq(two * c * c, one() + c2)), ("2 sin^2(u/2) = 1 - cos u", eq(two * s * s, one() - c2)), ("2 sin(u/2) cos(u/2) = sin u", eq(two * s * c, s2))]
}

/// finer relations (one axiom instance each): difference formulas for t = ln r1 - ln r2 and u = arg(1+z) - arg(1-z), and the
/// polar / exponential facts of the two logarithms.  f = [cos b1, sin b1, cos b2, sin b2, cosh a1, sinh a1, cosh a2, sinh a2]
fn atanh_fine(r1: Sym, r2: Sym, x: Sym, y: Sym, bch: Sym, bsh: Sym, c2: Sym, s2: Sym, f: [Sym; 8]) -> Vec<(&'static str, B)> {
    let two = Sym::lit(2.0);
    let [c1, s1, cc2, ss2, ch1, sh1, ch2, sh2] = f;
    vec![("r1 > 0 (fine)", lt(z(), r1)), ("r2 > 0 (fine)", lt(z(), r2)),
        ("cos u = cos b1 cos b2 + sin b1 sin b2", eq(c2, c1 * cc2 + s1 * ss2)), ("sin u = sin b1 cos b2 - cos b1 sin b2", eq(s2, s1 * cc2 - c1 * ss2)),
        ("r1 cos b1 = 1 + x", eq(r1 * c1, one() + x)), ("r1 sin b1 = y", eq(r1 * s1, y)), ("r2 cos b2 = 1 - x", eq(r2 * cc2, one() - x)), ("r2 sin b2 = -y", eq(r2 * ss2, -y)),
        ("cosh t = cosh a1 cosh a2 - sinh a1 sinh a2", eq(bch, ch1 * ch2 - sh1 * sh2)), ("sinh t = sinh a1 cosh a2 - cosh a1 sinh a2", eq(bsh, sh1 * ch2 - ch1 * sh2)),
        ("2 r1 sinh a1 = r1^2 - 1", eq(two * r1 * sh1, r1 * r1 - one())), ("2 r1 cosh a1 = r1^2 + 1", eq(two * r1 * ch1, r1 * r1 + one())),
        ("2 r2 sinh a2 = r2^2 - 1", eq(two * r2 * sh2, r2 * r2 - one())), ("2 r2 cosh a2 = r2^2 + 1", eq(two * r2 * ch2, r2 * r2 + one()))]
}

pub fn body(inst: &str) {
    let zc = cvar("z");
    let wc = cvar("w");
    let x = Sym::var("x");
    let cone = Cmplx::new(one(), z());
    match inst {
        "exp_ln" => {
            must("ln/exp", || { assume(nonzero(zc)); (zc.ln(), zc.ln().exp()) }, |(l, e)| {
                ceq("exp(ln z) = z", e, zc);
                prove("Im ln z > -pi", lt(-PI, l.imag));
                prove("Im ln z <= pi", le(l.imag, PI));
                prove("Im ln z = 0 on the positive real axis", B::implies(B::and(vec![eq(zc.imag, z()), lt(z(), zc.real)]), eq(l.imag, z())));
                prove("Im ln z = pi on the negative real axis (principal branch)", B::implies(B::and(vec![eq(zc.imag, z()), lt(zc.real, z())]), eq(l.imag, PI)));
                prove("sign of Im ln z follows Im z", B::and(vec![B::implies(lt(z(), zc.imag), lt(z(), l.imag)), B::implies(lt(zc.imag, z()), lt(l.imag, z()))]));
            });
            must("ln on the positive real axis", || { assume(lt(z(), x)); (Cmplx::new(x, z()).ln(), x.ln()) }, |(l, r)| { prove("ln(x + 0i) = ln x", B::and(vec![eq(l.real, r), eq(l.imag, z())])); });
            must("exp on the real axis", || (Cmplx::new(x, z()).exp(), x.exp()), |(e, r)| { prove("exp(x + 0i) = exp x", B::and(vec![eq(e.real, r), eq(e.imag, z())])); });
        }
        "exp_laws" => {
            must("exp(-z)", || (zc.exp(), (-zc).exp()), |(a, b)| ceq("exp(z) * exp(-z) = 1", a * b, cone));
            must("exp(z+w)", || ((zc + wc).exp(), zc.exp(), wc.exp()), |(s, a, b)| ceq("exp(z + w) = exp(z) exp(w)", s, a * b));
            must("exp(0)", || Cmplx::new(z(), z()).exp(), |e| ceq("exp(0) = 1", e, cone));
            must("|exp z|", || zc.exp().abs_sqr(), |m| { prove("|exp z|^2 = exp(Re z)^2", eq(m, zc.real.exp() * zc.real.exp())); prove("exp z != 0", lt(z(), m)); });
        }
        "sqrt" => {
            must("sqrt", || zc.sqrt(), |s| {
                ceq("sqrt(z)^2 = z", s * s, zc);
                prove("Re sqrt z >= 0 (principal branch)", le(z(), s.real));
                prove("sqrt of a negative real is +i sqrt|x|", B::implies(B::and(vec![eq(zc.imag, z()), lt(zc.real, z())]), B::and(vec![eq(s.real, z()), lt(z(), s.imag)])));
                prove("Im sqrt z has the sign of Im z", B::and(vec![B::implies(lt(z(), zc.imag), lt(z(), s.imag)), B::implies(lt(zc.imag, z()), lt(s.imag, z()))]));
            });
            must("sqrt on the non-negative real axis", || { assume(le(z(), x)); (Cmplx::new(x, z()).sqrt(), x.sqrt()) }, |(s, r)| { prove("sqrt(x + 0i) = sqrt x", B::and(vec![eq(s.real, r), eq(s.imag, z())])); });
        }
        "polar" => {
            must("polar round trip", || Cmplx::polar(zc.abs(), zc.arg()), |p| ceq("polar(|z|, arg z) = z", p, zc));
            must("abs", || (zc.abs(), zc.abs_sqr()), |(a, s)| { prove("|z|^2 = abs_sqr", eq(a * a, s)); prove("|z| >= 0", le(z(), a)); });
            must("arg range", || zc.arg(), |t| { prove("-pi < arg z <= pi", B::and(vec![lt(-PI, t), le(t, PI)])); });
            let (r, th) = (Sym::var("r"), Sym::var("theta"));
            must("polar modulus", || Cmplx::polar(r, th).abs_sqr(), |m| { prove("|polar(r, theta)|^2 = r^2", eq(m, r * r)); });
        }
        "trig" => {
            must("sin/cos", || (zc.sin(), zc.cos()), |(s, c)| ceq("sin^2 z + cos^2 z = 1", s * s + c * c, cone));
            must("real axis", || (Cmplx::new(x, z()).sin(), Cmplx::new(x, z()).cos(), x.sin(), x.cos()), |(s, c, rs, rc)| {
                prove("sin(x + 0i) = sin x", B::and(vec![eq(s.real, rs), eq(s.imag, z())]));
                prove("cos(x + 0i) = cos x", B::and(vec![eq(c.real, rc), eq(c.imag, z())]));
            });
            must("parity", || (zc.sin(), (-zc).sin(), zc.cos(), (-zc).cos()), |(s, sm, c, cm)| { ceq("sin(-z) = -sin z", sm, -s); ceq("cos(-z) = cos z", cm, c); });
        }
        "trig_quot" => {
            must("tan", || { let c = zc.cos(); assume(nonzero(c)); (zc.tan(), zc.sin(), c) }, |(t, s, c)| ceq("tan z * cos z = sin z", t * c, s));
            must("sec", || { let c = zc.cos(); assume(nonzero(c)); (zc.sec(), c) }, |(t, c)| reciprocal("sec z = 1 / cos z", t, c));
            must("csc", || { let s = zc.sin(); assume(nonzero(s)); (zc.csc(), s) }, |(t, s)| reciprocal("csc z = 1 / sin z", t, s));
            must("cot", || { let (s, c) = (zc.sin(), zc.cos()); assume(nonzero(s)); assume(nonzero(c)); (zc.cot(), zc.tan()) }, |(ct, t)| reciprocal("cot z = 1 / tan z", ct, t));
        }
        "hyp" => {
            must("sinh/cosh", || (zc.sinh(), zc.cosh()), |(s, c)| ceq("cosh^2 z - sinh^2 z = 1", c * c - s * s, cone));
            must("real axis", || (Cmplx::new(x, z()).sinh(), Cmplx::new(x, z()).cosh(), x.sinh(), x.cosh()), |(s, c, rs, rc)| {
                prove("sinh(x + 0i) = sinh x", B::and(vec![eq(s.real, rs), eq(s.imag, z())]));
                prove("cosh(x + 0i) = cosh x", B::and(vec![eq(c.real, rc), eq(c.imag, z())]));
            });
            must("exp split", || (zc.sinh(), zc.cosh(), zc.exp()), |(s, c, e)| ceq("cosh z + sinh z = exp z", c + s, e));
            must("parity", || (zc.sinh(), (-zc).sinh(), zc.cosh(), (-zc).cosh()), |(s, sm, c, cm)| { ceq("sinh(-z) = -sinh z", sm, -s); ceq("cosh(-z) = cosh z", cm, c); });
        }
        "hyp_quot" => {
            must("tanh", || { let c = zc.cosh(); assume(nonzero(c)); (zc.tanh(), zc.sinh(), c) }, |(t, s, c)| ceq("tanh z * cosh z = sinh z", t * c, s));
            must("sech", || { let c = zc.cosh(); assume(nonzero(c)); (zc.sech(), c) }, |(t, c)| reciprocal("sech z = 1 / cosh z", t, c));
            must("csch", || { let s = zc.sinh(); assume(nonzero(s)); (zc.csch(), s) }, |(t, s)| reciprocal("csch z = 1 / sinh z", t, s));
            must("coth", || { let (s, c) = (zc.sinh(), zc.cosh()); assume(nonzero(s)); assume(nonzero(c)); (zc.coth(), zc.tanh()) }, |(ct, t)| reciprocal("coth z = 1 / tanh z", ct, t));
        }
        "bridge" => {
            // Euler: cos z + i sin z = exp(i z);  sinh z = -i sin(i z);  cosh z = cos(i z)
            must("euler", || (zc.cos(), zc.sin(), i_times(zc).exp()), |(c, s, e)| ceq("cos z + i sin z = exp(i z)", c + i_times(s), e));
            must("sinh via sin", || (zc.sinh(), i_times(zc).sin()), |(sh, s)| ceq("i sinh z = sin(i z)", i_times(sh), s));
            must("cosh via cos", || (zc.cosh(), i_times(zc).cos()), |(ch, c)| ceq("cosh z = cos(i z)", ch, c));
        }
        "log" => {
            // one obligation group ("log_b :: ...") for the evaluation and the identity, so that a base on which the call itself
            // fails (e.g. a real logarithm of a negative base: NaN in f64) is replayed against the identity
            match catch(|| { assume(nonzero(zc)); assume(nonzero(wc)); let lb = wc.ln(); assume(nonzero(lb)); (zc.log(wc), lb, zc.ln()) }) {
                Ok((l, lb, lz)) => ceq("log_b :: log_b(z) * ln b = ln z", l * lb, lz),
                Err(st) => must_not_stop("log_b :: evaluates for every nonzero z and every base b with ln b != 0", &st),
            }
        }
        "inv_closed_forms" => {
            // every inverse function against its textbook principal-value closed form, written independently here from
            // the library's own ln and sqrt (whose branches are decided above).  Identical term DAGs are discharged
            // syntactically; anything else goes to the solver and, if it differs anywhere, to concrete replay.
            let i_unit = Cmplx::new(z(), one());
            let half = Sym::lit(0.5);
            assume(nonzero(zc));
            let inv = cone / zc;
            let asin_ref = |u: Cmplx| -(i_unit * (i_unit * u + (cone - u * u).sqrt()).ln());
            let acos_ref = |u: Cmplx| i_unit * (i_unit * u + (cone - u * u).sqrt()).ln() + PI_2;
            let atan_ref = |u: Cmplx| ((cone - i_unit * u).ln() - (cone + i_unit * u).ln()) * i_unit * half;
            let asinh_ref = |u: Cmplx| (u + (u * u + one()).sqrt()).ln();
            let acosh_ref = |u: Cmplx| (u + (u - one()).sqrt() * (u + one()).sqrt()).ln();
            let atanh_ref = |u: Cmplx| ((u + one()).ln() - (cone - u).ln()) * half;
            must_off_singularities("asin", || (zc.asin(), asin_ref(zc)), |(l, r)| ceq("asin z = -i ln(iz + sqrt(1 - z^2))", l, r));
            must_off_singularities("acos", || (zc.acos(), acos_ref(zc)), |(l, r)| ceq("acos z = pi/2 + i ln(iz + sqrt(1 - z^2))", l, r));
            must_off_singularities("asinh", || (zc.asinh(), asinh_ref(zc)), |(l, r)| ceq("asinh z = ln(z + sqrt(z^2 + 1))", l, r));
            must_off_singularities("acosh", || (zc.acosh(), acosh_ref(zc)), |(l, r)| ceq("acosh z = ln(z + sqrt(z - 1) sqrt(z + 1))", l, r));
            must_off_singularities("acsc", || (zc.acsc(), asin_ref(inv)), |(l, r)| ceq("acsc z = asin(1/z)", l, r));
            must_off_singularities("asec", || (zc.asec(), acos_ref(inv)), |(l, r)| ceq("asec z = acos(1/z)", l, r));
            must_off_singularities("asech", || (zc.asech(), acosh_ref(inv)), |(l, r)| ceq("asech z = acosh(1/z)", l, r));
            must_off_singularities("acsch", || (zc.acsch(), asinh_ref(inv)), |(l, r)| ceq("acsch z = asinh(1/z)", l, r));
            // the logarithmic ones need their arguments away from the branch points
            must_off_singularities("atan", || { assume(nonzero(cone - i_unit * zc)); assume(nonzero(cone + i_unit * zc)); (zc.atan(), atan_ref(zc)) }, |(l, r)| ceq("atan z = (i/2)(ln(1 - iz) - ln(1 + iz))", l, r));
            must_off_singularities("atanh", || { assume(nonzero(zc + one())); assume(nonzero(cone - zc)); (zc.atanh(), atanh_ref(zc)) }, |(l, r)| ceq("atanh z = (ln(1 + z) - ln(1 - z))/2", l, r));
            must_off_singularities("acot", || { assume(nonzero(cone - i_unit * inv)); assume(nonzero(cone + i_unit * inv)); (zc.acot(), atan_ref(inv)) }, |(l, r)| ceq("acot z = atan(1/z)", l, r));
            must_off_singularities("acoth", || { assume(nonzero(inv + one())); assume(nonzero(cone - inv)); (zc.acoth(), atanh_ref(inv)) }, |(l, r)| ceq("acoth z = atanh(1/z)", l, r));
        }
        "inv_right" => {
            // Right-inverse identities  sinh(asinh z) = z, cosh(acosh z) = z, sin(asin z) = z, cos(acos z) = z  for all z.
            // The direct query is beyond nlsat (ideal membership through six uninterpreted applications), so it is split into
            // steps that are each decided, every run, on the terms the library builds:
            //  (A) for an arbitrary u != 0 and each forward function g in { sinh(ln u), cosh(ln u), sin(-i ln u), cos(i ln u + pi/2) }:
            //      the library's value is [identical DAG] the textbook combination of sinh/cosh of one part and cos/sin of the other
            //      part of its argument; those real-function values satisfy (libm axioms, solver) the polynomial relations
            //      r > 0, r^2 = x^2+y^2, 2 r sh = +-(r^2-1), 2 r ch = r^2+1, r c = x|y, r s = y|x;  and a CLOSED polynomial lemma
            //      over fresh reals turns these relations into  2 u g = u^2 -+ 1  resp.  2i u g = u^2 - 1.
            //  (B) for every z: the library's f(f^-1(z)) is [identical DAG] g(u(z)) with u(z) built from the sqrt contract stub;
            //      the stub values satisfy s^2 = ... (solver), and CLOSED lemmas give u(z) != 0 and  g = z  from (A) at u = u(z).
            // The only step not sent to a solver is the instantiation of (A) at u = u(z).
            let i_unit = Cmplx::new(z(), one());
            let two = Sym::lit(2.0);
            let u = cvar("u");
            let (rq, xq, yq, shq, chq, cq, sq_) = (Sym::var("R"), Sym::var("X"), Sym::var("Y"), Sym::var("SH"), Sym::var("CH"), Sym::var("CO"), Sym::var("SI"));
            let uq = Cmplx::new(xq, yq);
            // relations between the real-function values; sign = -1 when the hyperbolic argument is -ln r, swap when the angle is pi/2 - arg u
            let relations = |r: Sym, x: Sym, y: Sym, sh: Sym, ch: Sym, c: Sym, s: Sym, sign: f64, swap: bool| -> Vec<(&'static str, B)> { vec![
                ("r > 0", lt(z(), r)), ("r^2 = x^2 + y^2", eq(r * r, x * x + y * y)),
                ("2 r sinh(+-ln r) = +-(r^2 - 1)", eq(two * r * sh, (r * r - one()) * Sym::lit(sign))), ("2 r cosh(ln r) = r^2 + 1", eq(two * r * ch, r * r + one())),
                ("r cos(angle)", eq(r * c, if swap { y } else { x })), ("r sin(angle)", eq(r * s, if swap { x } else { y }))] };
            // (name, g as library calls, textbook combination, conclusion lhs/rhs, sign, swap, hyperbolic part is the real part)
            for which in ["sinh(ln u)", "cosh(ln u)", "sin(-i ln u)", "cos(i ln u + pi/2)"] {
                let hyper_first = which.starts_with("sinh") || which.starts_with("cosh");
                let (sign, swap) = match which { "sin(-i ln u)" => (-1.0, false), "cos(i ln u + pi/2)" => (1.0, true), _ => (1.0, false) };
                let comb = move |sh: Sym, ch: Sym, c: Sym, s: Sym| -> Cmplx { match which {
                    "sinh(ln u)" => Cmplx::new(sh * c, ch * s), "cosh(ln u)" => Cmplx::new(ch * c, sh * s),
                    "sin(-i ln u)" => Cmplx::new(s * ch, c * sh), _ => Cmplx::new(c * ch, -s * sh) } };
                let concl = move |uu: Cmplx, g: Cmplx| -> (Cmplx, Cmplx) { match which {
                    "sinh(ln u)" => (g * uu * two, uu * uu - one()), "cosh(ln u)" => (g * uu * two, uu * uu + one()),
                    _ => (i_unit * (g * uu * two), uu * uu - one()) } };
                must(which, || { assume(nonzero(u)); let l = u.ln(); let w = match which { "sinh(ln u)" | "cosh(ln u)" => l, "sin(-i ln u)" => -(i_unit * l), _ => i_unit * l + PI_2 };
                        let g = match which { "sinh(ln u)" => w.sinh(), "cosh(ln u)" => w.cosh(), "sin(-i ln u)" => w.sin(), _ => w.cos() }; (u.abs(), w, g) }, |(r, w, g)| {
                    let (hp, an) = if hyper_first { (w.real, w.imag) } else { (w.imag, w.real) };
                    let (sh, ch, c, s) = (hp.sinh(), hp.cosh(), an.cos(), an.sin());
                    let t = comb(sh, ch, c, s);
                    prove_eq(&format!("{} :: real part is the textbook combination of real functions", which), g.real, t.real);
                    prove_eq(&format!("{} :: imaginary part is the textbook combination of real functions", which), g.imag, t.imag);
                    for (nm, b) in relations(r, u.real, u.imag, sh, ch, c, s, sign, swap) { prove(&format!("{} :: {}", which, nm), b); }
                });
                let hyp: Vec<B> = relations(rq, xq, yq, shq, chq, cq, sq_, sign, swap).into_iter().map(|(_, b)| b).collect();
                let (lhs, rhs) = concl(uq, comb(shq, chq, cq, sq_));
                prove_closed(&format!("{} :: closed lemma: the relations imply the identity", which), B::implies(B::and(hyp), B::and(vec![eq(lhs.real, rhs.real), eq(lhs.imag, rhs.imag)])));
            }
            // (B) compositions
            let (zq, sv, fq, pq, qq) = (cvar("Z"), cvar("SQ"), cvar("F"), cvar("P"), cvar("Q"));
            let cimp = |h: Vec<(Cmplx, Cmplx)>, extra: Vec<B>, g: B| { let mut v: Vec<B> = extra; for (a, b) in h { v.push(eq(a.real, b.real)); v.push(eq(a.imag, b.imag)); } B::implies(B::and(v), g) };
            let ceqb = |a: Cmplx, b: Cmplx| B::and(vec![eq(a.real, b.real), eq(a.imag, b.imag)]);
            // asinh
            must_off_singularities("sinh(asinh z)", || { let lib = zc.asinh().sinh(); let s = (zc * zc + one()).sqrt(); let uh = s + zc; (lib, s, uh.ln().sinh()) }, |(lib, s, g)| {
                prove_eq("sinh(asinh z) :: is sinh(ln u) at u = sqrt(z^2+1) + z (real part)", lib.real, g.real); prove_eq("sinh(asinh z) :: is sinh(ln u) at u = sqrt(z^2+1) + z (imaginary part)", lib.imag, g.imag);
                ceq("sinh(asinh z) :: the square root satisfies s^2 = z^2 + 1", s * s, zc * zc + one());
            });
            { let uu = sv + zq;
              prove_closed("sinh(asinh z) :: closed: s^2 = z^2+1 implies u = s + z != 0", cimp(vec![(sv * sv, zq * zq + one())], vec![], nonzero(uu)));
              prove_closed("sinh(asinh z) :: closed: 2 u F = u^2 - 1 implies F = z", cimp(vec![(sv * sv, zq * zq + one()), (fq * uu * two, uu * uu - one())], vec![nonzero(uu)], ceqb(fq, zq))); }
            // acosh
            must_off_singularities("cosh(acosh z)", || { let lib = zc.acosh().cosh(); let (p, q) = ((zc - one()).sqrt(), (zc + one()).sqrt()); let uh = p * q + zc; (lib, p, q, uh.ln().cosh()) }, |(lib, p, q, g)| {
                prove_eq("cosh(acosh z) :: is cosh(ln u) at u = sqrt(z-1) sqrt(z+1) + z (real part)", lib.real, g.real); prove_eq("cosh(acosh z) :: is cosh(ln u) at u = sqrt(z-1) sqrt(z+1) + z (imaginary part)", lib.imag, g.imag);
                ceq("cosh(acosh z) :: p^2 = z - 1", p * p, zc - one()); ceq("cosh(acosh z) :: q^2 = z + 1", q * q, zc + one());
            });
            { let uu = sv + zq;
              prove_closed("cosh(acosh z) :: closed: p^2 = z-1, q^2 = z+1 imply (pq)^2 = z^2 - 1", cimp(vec![(pq * pq, zq - one()), (qq * qq, zq + one())], vec![], ceqb((pq * qq) * (pq * qq), zq * zq - one())));
              prove_closed("cosh(acosh z) :: closed: w^2 = z^2-1 implies u = w + z != 0", cimp(vec![(sv * sv, zq * zq - one())], vec![], nonzero(uu)));
              prove_closed("cosh(acosh z) :: closed: 2 u F = u^2 + 1 implies F = z", cimp(vec![(sv * sv, zq * zq - one()), (fq * uu * two, uu * uu + one())], vec![nonzero(uu)], ceqb(fq, zq))); }
            // asin, acos
            must_off_singularities("sin(asin z)", || { let lib = zc.asin().sin(); let s = (cone - zc * zc).sqrt(); let uh = s + i_unit * zc; (lib, s, (-(i_unit * uh.ln())).sin()) }, |(lib, s, g)| {
                prove_eq("sin(asin z) :: is sin(-i ln u) at u = sqrt(1-z^2) + iz (real part)", lib.real, g.real); prove_eq("sin(asin z) :: is sin(-i ln u) at u = sqrt(1-z^2) + iz (imaginary part)", lib.imag, g.imag);
                ceq("sin(asin z) :: the square root satisfies s^2 = 1 - z^2", s * s, cone - zc * zc);
            });
            must_off_singularities("cos(acos z)", || { let lib = zc.acos().cos(); let s = (cone - zc * zc).sqrt(); let uh = s + i_unit * zc; (lib, (i_unit * uh.ln() + PI_2).cos()) }, |(lib, g)| {
                prove_eq("cos(acos z) :: is cos(i ln u + pi/2) at u = sqrt(1-z^2) + iz (real part)", lib.real, g.real); prove_eq("cos(acos z) :: is cos(i ln u + pi/2) at u = sqrt(1-z^2) + iz (imaginary part)", lib.imag, g.imag);
            });
            { let uu = sv + i_unit * zq;
              prove_closed("sin(asin z), cos(acos z) :: closed: s^2 = 1-z^2 implies u = s + iz != 0", cimp(vec![(sv * sv, cone - zq * zq)], vec![], nonzero(uu)));
              prove_closed("sin(asin z), cos(acos z) :: closed: 2i u F = u^2 - 1 implies F = z", cimp(vec![(sv * sv, cone - zq * zq), (i_unit * (fq * uu * two), uu * uu - one())], vec![nonzero(uu)], ceqb(fq, zq))); }
            control("inv_right control", eq(u.real, u.real + one()));
        }
        "inv_right_atanh" => {
            // tanh(atanh z) = z for z != +-1, by the same kind of decomposition as inv_right:  w = (ln(1+z) - ln(1-z))/2,
            // p = Re w, q = Im w.  Relations on the library's terms (axioms, z3), then closed lemmas over fresh reals.
            let two = Sym::lit(2.0);
            must_off_singularities("tanh(atanh z)", || { assume(nonzero(zc + cone)); assume(nonzero(cone - zc));
                    let (l1, l2) = ((zc + one()).ln(), (cone - zc).ln()); let w = zc.atanh(); ((zc + one()).abs(), (cone - zc).abs(), l1, l2, w, w.sinh(), w.cosh()) }, |(r1, r2, l1, l2, w, sw, cw)| {
                let wh = (l1 - l2) * Sym::lit(0.5);
                prove_eq("tanh(atanh z) :: atanh z is (ln(1+z) - ln(1-z))/2 (real part)", w.real, wh.real); prove_eq("tanh(atanh z) :: atanh z is (ln(1+z) - ln(1-z))/2 (imaginary part)", w.imag, wh.imag);
                let (t, u2) = (l1.real - l2.real, l1.imag - l2.imag);
                let (sh, ch, c, s) = (w.real.sinh(), w.real.cosh(), w.imag.cos(), w.imag.sin());
                prove_eq("tanh(atanh z) :: sinh w real part", sw.real, sh * c); prove_eq("tanh(atanh z) :: sinh w imaginary part", sw.imag, ch * s);
                prove_eq("tanh(atanh z) :: cosh w real part", cw.real, ch * c); prove_eq("tanh(atanh z) :: cosh w imaginary part", cw.imag, sh * s);
                let (x, y) = (zc.real, zc.imag);
                let (bch, bsh, c2, s2) = (t.cosh(), t.sinh(), u2.cos(), u2.sin());
                // the four product relations are beyond nlsat in one step: they follow (closed lemmas below) from finer relations
                let skip = ["2 r1 r2 cosh t = r1^2 + r2^2", "2 r1 r2 sinh t = r1^2 - r2^2", "r1 r2 cos u = (1+x)(1-x) - y^2", "r1 r2 sin u = 2y"];
                for (nm, b) in atanh_relations(r1, r2, x, y, bch, bsh, ch, sh, c2, s2, c, s) { if !skip.contains(&nm) { prove(&format!("tanh(atanh z) :: {}", nm), b); } }
                let f = [l1.imag.cos(), l1.imag.sin(), l2.imag.cos(), l2.imag.sin(), l1.real.cosh(), l1.real.sinh(), l2.real.cosh(), l2.real.sinh()];
                for (nm, b) in atanh_fine(r1, r2, x, y, bch, bsh, c2, s2, f) { prove(&format!("tanh(atanh z) :: {}", nm), b); }
            });
            {
                let v = |n: &str| Sym::var(n);
                let (x, y, r1, r2, bch, bsh, c2, s2) = (v("X"), v("Y"), v("R1"), v("R2"), v("BCH"), v("BSH"), v("C2"), v("S2"));
                let f = [v("C1q"), v("S1q"), v("C2q"), v("S2q"), v("CH1q"), v("SH1q"), v("CH2q"), v("SH2q")];
                let fine: Vec<B> = atanh_fine(r1, r2, x, y, bch, bsh, c2, s2, f).into_iter().map(|(_, b)| b).collect();
                let two = Sym::lit(2.0);
                prove_closed("tanh(atanh z) :: closed: fine relations imply 2 r1 r2 cosh t = r1^2 + r2^2", B::implies(B::and(fine.clone()), eq(two * r1 * r2 * bch, r1 * r1 + r2 * r2)));
                prove_closed("tanh(atanh z) :: closed: fine relations imply 2 r1 r2 sinh t = r1^2 - r2^2", B::implies(B::and(fine.clone()), eq(two * r1 * r2 * bsh, r1 * r1 - r2 * r2)));
                prove_closed("tanh(atanh z) :: closed: fine relations imply r1 r2 cos u = (1+x)(1-x) - y^2", B::implies(B::and(fine.clone()), eq(r1 * r2 * c2, (one() + x) * (one() - x) - y * y)));
                prove_closed("tanh(atanh z) :: closed: fine relations imply r1 r2 sin u = 2y", B::implies(B::and(fine), eq(r1 * r2 * s2, two * y)));
            }
            let v = |n: &str| Sym::var(n);
            let (x, y, r1, r2, bch, bsh, ch, sh, c2, s2, c, s) = (v("X"), v("Y"), v("R1"), v("R2"), v("BCH"), v("BSH"), v("CH"), v("SH"), v("C2"), v("S2"), v("CO"), v("SI"));
            let hyp: Vec<B> = atanh_relations(r1, r2, x, y, bch, bsh, ch, sh, c2, s2, c, s).into_iter().map(|(_, b)| b).collect();
            prove_closed("tanh(atanh z) :: closed: the relations imply sinh w = z cosh w", B::implies(B::and(hyp.clone()), B::and(vec![eq(sh * c, x * (ch * c) - y * (sh * s)), eq(ch * s, x * (sh * s) + y * (ch * c))])));
            prove_closed("tanh(atanh z) :: closed: the relations imply cosh w != 0", B::implies(B::and(hyp), B::or(vec![ne(ch * c, z()), ne(sh * s, z())])));
            let (tq, kq, zq) = (cvar("T"), cvar("K"), cvar("Z"));
            prove_closed("tanh(atanh z) :: closed: t k = z k and k != 0 imply t = z", B::implies(B::and(vec![eq((tq * kq).real, (zq * kq).real), eq((tq * kq).imag, (zq * kq).imag), nonzero(kq)]), B::and(vec![eq(tq.real, zq.real), eq(tq.imag, zq.imag)])));
            let _ = two;
            control("inv_right_atanh control", eq(zc.real, zc.real + one()));
        }
        "inv_acosh" => {
            must("acosh", || { let a = zc.acosh(); a }, |a| { prove("Re acosh z >= 0 (principal branch)", le(z(), a.real)); prove("Im acosh z in (-pi, pi]", B::and(vec![lt(-PI, a.imag), le(a.imag, PI)])); });
        }
        "inv_asinh" => {
            must("asinh", || { let a = zc.asinh(); (a, a.sinh()) }, |(a, s)| { prove("Im asinh z in (-pi, pi]", B::and(vec![lt(-PI, a.imag), le(a.imag, PI)])); ceq("sinh(asinh z) = z", s, zc); });
        }
        "inv_acosh_id" => {
            must("cosh(acosh)", || { let a = zc.acosh(); a.cosh() }, |c| ceq("cosh(acosh z) = z", c, zc));
        }
        "inv_asin" => {
            must("asin range", || zc.asin(), |a| { prove("Re asin z in [-pi/2, pi/2]", B::and(vec![le(-PI_2, a.real), le(a.real, PI_2)])); });
        }
        "inv_acos" => {
            must("acos range", || zc.acos(), |a| { prove("Re acos z in [0, pi]", B::and(vec![le(z(), a.real), le(a.real, PI)])); });
        }
        "inv_atanh" => {
            must("atanh", || { assume(nonzero(zc + cone)); assume(nonzero(cone - zc)); let a = zc.atanh(); (a, a.tanh()) }, |(a, t)| { prove("Im atanh z in [-pi/2, pi/2]", B::and(vec![le(-PI_2, a.imag), le(a.imag, PI_2)])); ceq("tanh(atanh z) = z", t, zc); });
        }
        "pow" => {
            must("powf", || { assume(nonzero(zc)); (zc.powf(Sym::lit(2.0)), zc * zc) }, |(p, q)| ceq("z^2 via powf = z*z", p, q));
            // (z^w = exp(w ln z) for general w needs pow/exp/ln axioms beyond the instantiated ones: undecided, not claimed)
            must("powf(1)", || { assume(nonzero(zc)); zc.powf(one()) }, |p| ceq("z^1 via powf = z", p, zc));
            // negative whole-number exponents: z^-1 z = 1, z^-2 z^2 = 1 (a reciprocal must be taken), and a real base stays real
            must("powf(-1)", || { assume(nonzero(zc)); zc.powf(Sym::lit(-1.0)) }, |p| ceq("z^-1 via powf times z = 1", p * zc, cone));
            must("powf(-2)", || { assume(nonzero(zc)); zc.powf(Sym::lit(-2.0)) }, |p| ceq("z^-2 via powf times z^2 = 1", p * (zc * zc), cone));
        }
        "inverse" => {
            must("asinh", || { let a = zc.asinh(); (a, a.sinh()) }, |(_a, s)| ceq("sinh(asinh z) = z", s, zc));
            must("asin range", || zc.asin(), |a| { prove("Re asin z in [-pi/2, pi/2]", B::and(vec![le(-PI_2, a.real), le(a.real, PI_2)])); });
            must("acos range", || zc.acos(), |a| { prove("Re acos z in [0, pi]", B::and(vec![le(z(), a.real), le(a.real, PI)])); });
        }
        _ => panic!("unknown C14 instance"),
    }
}
