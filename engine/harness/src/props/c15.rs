//! C15 - vector arithmetic, reductions, norms and edits match their definitions under any history.
use super::*;
use crate::util::*;
use ohsl::{Complex, Vector};
use symcore::*;

pub fn instances(tier: &str) -> Vec<String> {
    let mut v = Vec::new();
    let (nmax, emax) = if tier == "thorough" { (8, 64) } else { (4, 6) };
    for n in 0..=nmax { v.push(format!("arith:n={}", n)); }
    for n in 0..=emax { if n <= 8 || n % 8 == 0 || tier == "thorough" { v.push(format!("edit:n={}", n)); } }
    for n in 1..=(if tier == "thorough" { 5 } else { 4 }) { v.push(format!("sort:n={}", n)); v.push(format!("find:n={}", n)); }
    for n in 0..=(if tier == "thorough" { 4 } else { 3 }) { v.push(format!("norms:n={}", n)); }
    for n in 1..=(if tier == "thorough" { 4 } else { 3 }) { v.push(format!("norminf:n={}", n)); v.push(format!("norminf_laws:n={}", n)); }
    for n in 0..=(if tier == "thorough" { 3 } else { 2 }) { v.push(format!("triangle2:n={}", n)); }
    for n in 2..=(if tier == "thorough" { 9 } else { 5 }) { v.push(format!("space:n={}", n)); }
    // "generated sequences are monotone" over f64: rounding must not reorder neighbours (raw DAG, QF_FP)
    for n in 2..=(if tier == "thorough" { 5 } else { 4 }) { v.push(format!("fp_space:n={}", n)); }
    // element-wise arithmetic is ONE IEEE operation per entry (props/fparith.rs)
    v.push("fp_arith:of=vector,n=2".into());
    // Vector<Complex<f64>>: conj / real / norm_inf and the generic operators at the complex instantiation
    for n in 0..=(if tier == "thorough" { 4 } else { 3 }) { v.push(format!("cvec:n={}", n)); }
    v
}

fn z() -> Sym { Sym::lit(0.0) }
fn vv(x: &[Sym]) -> Vector<Sym> { Vector::create(x.to_vec()) }

fn complex_vectors(n: usize) {
    use ohsl_sym::{Cmplx, Vector as V2};
    let cv = |q: &str| -> Vec<Cmplx> { (0..n).map(|i| Cmplx::new(Sym::var(&format!("{}r_{}", q, i)), Sym::var(&format!("{}i_{}", q, i)))).collect() };
    let (a, b) = (cv("a"), cv("b"));
    let w = Cmplx::new(Sym::var("wr"), Sym::var("wi"));
    let mk = |x: &[Cmplx]| V2::<Cmplx>::create(x.to_vec());
    let expect = |tag: &str, r: &V2<Cmplx>, want: &[Cmplx]| {
        if !check_that(r.size() == want.len(), || format!("complex {}: length {} instead of {}", tag, r.size(), want.len())) { return; }
        for i in 0..want.len() { prove_eq(&format!("complex {}: entry {} (real part)", tag, i), r[i].real, want[i].real); prove_eq(&format!("complex {}: entry {} (imaginary part)", tag, i), r[i].imag, want[i].imag); }
    };
    must("complex conj", || mk(&a).conj(), |r| expect("conj", &r, &a.iter().map(|c| Cmplx::new(c.real, -c.imag)).collect::<Vec<_>>()));
    must("complex real", || mk(&a).real(), |r| { if check_that(r.size() == n, || "complex real: length".into()) { for i in 0..n { prove_eq(&format!("complex real: entry {}", i), r[i], a[i].real); } } });
    must("complex &v + &w", || &mk(&a) + &mk(&b), |r| expect("&v + &w", &r, &(0..n).map(|i| Cmplx::new(a[i].real + b[i].real, a[i].imag + b[i].imag)).collect::<Vec<_>>()));
    must("complex v - w", || mk(&a) - mk(&b), |r| expect("v - w", &r, &(0..n).map(|i| Cmplx::new(a[i].real - b[i].real, a[i].imag - b[i].imag)).collect::<Vec<_>>()));
    must("complex -v", || -mk(&a), |r| expect("-v", &r, &a.iter().map(|c| Cmplx::new(-c.real, -c.imag)).collect::<Vec<_>>()));
    must("complex v * w", || mk(&a) * w, |r| expect("v * w", &r, &a.iter().map(|c| Cmplx::new(c.real * w.real - c.imag * w.imag, c.real * w.imag + c.imag * w.real)).collect::<Vec<_>>()));
    must("complex dot", || mk(&a).dot(&mk(&b)), |r| {
        let (mut re, mut im) = (z(), z());
        for i in 0..n { re = re + (a[i].real * b[i].real - a[i].imag * b[i].imag); im = im + (a[i].real * b[i].imag + a[i].imag * b[i].real); }
        prove_eq("complex dot = sum a_i b_i (real part; no conjugation)", r.real, re); prove_eq("complex dot = sum a_i b_i (imaginary part; no conjugation)", r.imag, im);
    });
    if n == 0 { must("complex norm_inf of the empty vector", || mk(&a).norm_inf(), |r| { prove_eq("complex norm_inf(empty) = 0", r, z()); }); }
    if n >= 1 {
        let m2: Vec<Sym> = a.iter().map(|c| c.real * c.real + c.imag * c.imag).collect();
        must("complex norm_inf", || mk(&a).norm_inf(), |r| {
            for i in 0..n { prove(&format!("complex norm_inf^2 >= |a_{}|^2", i), le(m2[i], r * r)); }
            prove("complex norm_inf >= 0", le(z(), r));
            prove("complex norm_inf is attained: norm_inf^2 = |a_i|^2 for some i", B::or((0..n).map(|i| eq(r * r, m2[i])).collect()));
        });
        let intact = { let v = mk(&a); let _ = v.norm_inf(); let _ = v.conj(); let _ = v.real(); (0..n).all(|i| v[i].real.same(a[i].real) && v[i].imag.same(a[i].imag)) };
        prove("complex conj / real / norm_inf leave the vector intact", if intact { B::True } else { B::False });
    }
    control("cvec control", eq(w.real, w.real + Sym::lit(1.0)));
}

pub fn body(inst: &str) {
    let (kind, p) = parse_inst(inst);
    let n = geti(&p, "n");
    if kind == "cvec" { return complex_vectors(n); }
    let a = var_vec("a", n);
    let b = var_vec("b", n);
    let s = Sym::var("s");
    match kind.as_str() {
        "arith" => {
            let sum: Vec<Sym> = (0..n).map(|i| a[i] + b[i]).collect();
            let dif: Vec<Sym> = (0..n).map(|i| a[i] - b[i]).collect();
            must("&v + &w", || &vv(&a) + &vv(&b), |r| expect_vec("&v + &w", &r, &sum));
            must("v + &w", || vv(&a) + &vv(&b), |r| expect_vec("v + &w", &r, &sum));
            must("v + w", || vv(&a) + vv(&b), |r| expect_vec("v + w", &r, &sum));
            must("&v - &w", || &vv(&a) - &vv(&b), |r| expect_vec("&v - &w", &r, &dif));
            must("v - &w", || vv(&a) - &vv(&b), |r| expect_vec("v - &w", &r, &dif));
            must("v - w", || vv(&a) - vv(&b), |r| expect_vec("v - w", &r, &dif));
            must("-v", || -vv(&a), |r| expect_vec("-v", &r, &a.iter().map(|x| -*x).collect::<Vec<_>>()));
            must("v * s", || vv(&a) * s, |r| expect_vec("v * s", &r, &a.iter().map(|x| *x * s).collect::<Vec<_>>()));
            must("v += w", || { let mut t = vv(&a); t += vv(&b); t }, |r| expect_vec("v += w", &r, &sum));
            must("v -= w", || { let mut t = vv(&a); t -= vv(&b); t }, |r| expect_vec("v -= w", &r, &dif));
            must("v += s", || { let mut t = vv(&a); t += s; t }, |r| expect_vec("v += s", &r, &a.iter().map(|x| *x + s).collect::<Vec<_>>()));
            must("v -= s", || { let mut t = vv(&a); t -= s; t }, |r| expect_vec("v -= s", &r, &a.iter().map(|x| *x - s).collect::<Vec<_>>()));
            must("v *= s", || { let mut t = vv(&a); t *= s; t }, |r| expect_vec("v *= s", &r, &a.iter().map(|x| *x * s).collect::<Vec<_>>()));
            must("dot", || vv(&a).dot(&vv(&b)), |r| { prove_eq("dot = sum a_i b_i", r, dotv(&a, &b)); });
            must("abs", || vv(&a).abs(), |r| expect_vec("abs", &r, &a.iter().map(|x| x.abs()).collect::<Vec<_>>()));
            must("norm_1", || vv(&a).norm_1(), |r| { let mut acc = z(); for x in &a { acc = acc + x.abs(); } prove_eq("norm_1 = sum |a_i|", r, acc); });
            must("zeros/ones/new", || (Vector::<Sym>::zeros(n), Vector::<Sym>::ones(n), Vector::<Sym>::new(n, s), Vector::<Sym>::empty()), |(zr, on, nw, em)| {
                expect_vec("zeros", &zr, &vec![z(); n]); expect_vec("ones", &on, &vec![Sym::lit(1.0); n]); expect_vec("new", &nw, &vec![s; n]); expect_vec("empty", &em, &[]);
            });
            must("clone", || vv(&a).clone(), |r| expect_vec("clone", &r, &a));
            for st in 0..n { for en in st..n {
                must("sum_slice", || vv(&a).sum_slice(st, en), |r| { let mut acc = z(); for i in st..=en { acc = acc + a[i]; } prove_eq(&format!("sum_slice({},{})", st, en), r, acc); });
                must("product_slice", || vv(&a).product_slice(st, en), |r| { let mut acc = a[st]; for i in st + 1..=en { acc = acc * a[i]; } prove_eq(&format!("product_slice({},{})", st, en), r, acc); });
            } }
            // length 0 included: the empty sum is 0, the empty product is 1 (the statement quantifies over lengths 0..64)
            must("sum", || vv(&a).sum(), |r| { let mut acc = z(); for x in &a { acc = acc + *x; } prove_eq("sum = a_0 + ... + a_{n-1} (0 for the empty vector)", r, acc); });
            must("product", || vv(&a).product(), |r| { let mut acc = Sym::lit(1.0); for x in &a { acc = acc * *x; } prove_eq("product = a_0 * ... * a_{n-1} (1 for the empty vector)", r, acc); });
            if n == 0 { must("norm_inf of the empty vector", || (ohsl_sym::Vec64::create(Vec::new()).norm_inf(), vv(&a).norm_1()), |(ni, n1)| { prove_eq("norm_inf(empty) = 0", ni, z()); prove_eq("norm_1(empty) = 0", n1, z()); }); }
            // complex vectors: conj / real
            let zc: Vec<Complex<Sym>> = (0..n).map(|i| Complex::new(a[i], b[i])).collect();
            must("conj/real", || { let v = Vector::create(zc.clone()); (v.conj(), v.real()) }, |(c, re)| {
                let ok = c.size() == n && re.size() == n;
                prove("conj/real lengths", if ok { B::True } else { B::False });
                if ok { for i in 0..n { prove_eq(&format!("conj re {}", i), c[i].real, a[i]); prove_eq(&format!("conj im {}", i), c[i].imag, -b[i]); prove_eq(&format!("real {}", i), re[i], a[i]); } }
            });
            must("v / s", || { assume(ne(s, z())); (vv(&a) / s, { let mut t = vv(&a); t /= s; t }) }, |(q, t)| {
                let ok = q.size() == n && t.size() == n;
                prove("v / s lengths", if ok { B::True } else { B::False });
                if ok { for i in 0..n { prove_eq(&format!("(v / s)[{}] * s", i), q[i] * s, a[i]); prove_eq(&format!("(v /= s)[{}] * s", i), t[i] * s, a[i]); } }
            });
            if n > 0 { control("arith control", eq(a[0] + b[0], a[0] * b[0])); }
        }
        "edit" => {
            // one step from an arbitrary vector of length n, against a plain list model
            let w = Sym::var("w");
            must("push", || { let mut t = vv(&a); t.push(w); t }, |r| { let mut m = a.clone(); m.push(w); expect_vec("push", &r, &m) });
            must("push_front", || { let mut t = vv(&a); t.push_front(w); t }, |r| { let mut m = a.clone(); m.insert(0, w); expect_vec("push_front", &r, &m) });
            for pos in 0..=n { must("insert", || { let mut t = vv(&a); t.insert(pos, w); t }, |r| { let mut m = a.clone(); m.insert(pos, w); expect_vec(&format!("insert({})", pos), &r, &m) }); }
            if n >= 1 {
                must("pop", || { let mut t = vv(&a); let x = t.pop(); (t, x) }, |(r, x)| { expect_vec("pop", &r, &a[..n - 1]); prove_eq("pop returns the last element", x, a[n - 1]); });
                let pairs: Vec<(usize, usize)> = if n <= 8 { (0..n).flat_map(|i| (0..n).map(move |j| (i, j))).collect() } else { vec![(0, n - 1), (n - 1, 0), (n / 2, n / 2), (1, n - 2)] };
                for (i, j) in pairs { must("swap", || { let mut t = vv(&a); t.swap(i, j); t }, |r| { let mut m = a.clone(); m.swap(i, j); expect_vec(&format!("swap({},{})", i, j), &r, &m) }); }
                must("index_mut", || { let mut t = vv(&a); t[n - 1] = w; t }, |r| { let mut m = a.clone(); m[n - 1] = w; expect_vec("index_mut", &r, &m) });
            }
            for m_ in 0..=n + 2 { must("resize", || { let mut t = vv(&a); t.resize(m_); t }, |r| { let mut m = a.clone(); m.resize(m_, z()); expect_vec(&format!("resize({})", m_), &r, &m) }); }
            // shrink-then-grow histories: spare capacity / stale storage left by the first call must not show in the second
            // (the single steps start from a freshly built vector whose capacity equals its length)
            {
                type Op = (&'static str, fn(&mut Vector<Sym>, Sym), fn(&mut Vec<Sym>, Sym));
                let shrink: Vec<Op> = vec![
                    ("pop", |t, _| { if t.size() > 0 { t.pop(); } }, |m, _| { m.pop(); }),
                    ("clear", |t, _| t.clear(), |m, _| m.clear()),
                    ("resize(0)", |t, _| t.resize(0), |m, _| m.clear()),
                    ("resize(len/2)", |t, _| { let k = t.size() / 2; t.resize(k) }, |m, _| { let k = m.len() / 2; m.truncate(k) }),
                ];
                let grow: Vec<Op> = vec![
                    ("resize(len+1)", |t, _| { let k = t.size() + 1; t.resize(k) }, |m, _| { let k = m.len() + 1; m.resize(k, Sym::lit(0.0)) }),
                    ("resize(len+3)", |t, _| { let k = t.size() + 3; t.resize(k) }, |m, _| { let k = m.len() + 3; m.resize(k, Sym::lit(0.0)) }),
                    ("push", |t, w| t.push(w), |m, w| m.push(w)),
                    ("push_front", |t, w| t.push_front(w), |m, w| m.insert(0, w)),
                    ("insert(0)", |t, w| t.insert(0, w), |m, w| m.insert(0, w)),
                ];
                for (sn, sf, sm) in &shrink { for (gn, gf, gm) in &grow {
                    let tag = format!("{};{}", sn, gn);
                    must(&tag, || { let mut t = vv(&a); sf(&mut t, w); gf(&mut t, w); t }, |r| { let mut m = a.clone(); sm(&mut m, w); gm(&mut m, w); expect_vec(&tag, &r, &m) });
                } }
            }
            must("assign", || { let mut t = vv(&a); t.assign(w); t }, |r| expect_vec("assign", &r, &vec![w; n]));
            must("clear", || { let mut t = vv(&a); t.clear(); t }, |r| expect_vec("clear", &r, &[]));
            must("clear;push", || { let mut t = vv(&a); t.clear(); t.push(w); t }, |r| expect_vec("clear;push", &r, &[w]));
            // clone is independent of its original
            must("clone independence", || { let orig = vv(&a); let mut c = orig.clone(); c.push(w); c.assign(w); (orig, c) }, |(o, c)| { expect_vec("original after mutating the clone", &o, &a); expect_vec("mutated clone", &c, &vec![w; n + 1]); });
            control("edit control", eq(w, w + Sym::lit(1.0)));
        }
        "sort" => {
            match catch(|| { let mut t = vv(&a); t.sort(); t }) {
                Ok(r) => {
                    let ok = r.size() == n;
                    prove("sort keeps the length", if ok { B::True } else { B::False });
                    if ok {
                        // a permutation of the input (as terms) ...
                        let mut used = vec![false; n];
                        let mut perm = true;
                        for i in 0..n { let mut f = false; for j in 0..n { if !used[j] && r[i].same(a[j]) { used[j] = true; f = true; break; } } perm = perm && f; }
                        prove("sort returns a permutation of its input", if perm { B::True } else { B::False });
                        // ... in non-decreasing order for every input consistent with this comparison path
                        for i in 0..n.saturating_sub(1) { prove(&format!("sorted: r[{}] <= r[{}]", i, i + 1), le(r[i], r[i + 1])); }
                    }
                }
                Err(st) => must_not_stop("sort", &st),
            }
            control("sort control", eq(a[0], a[0] + Sym::lit(1.0)));
        }
        "find" => {
            let val = Sym::var("val");
            match catch(|| vv(&a).find(val)) {
                Ok(idx) => {
                    prove("find returns an index of the vector", if idx < n { B::True } else { B::False });
                    if idx < n {
                        let none_before = B::and((0..idx).map(|i| ne(a[i], val)).collect());
                        let hit = B::and(vec![eq(a[idx], val), none_before.clone()]);
                        let miss = B::and(vec![B::and((0..n).map(|i| ne(a[i], val)).collect()), if idx == n - 1 { B::True } else { B::False }]);
                        prove("find = first matching index, else the last index", B::or(vec![hit, miss]));
                    }
                }
                Err(st) => must_not_stop("find", &st),
            }
            control("find control", eq(val, val + Sym::lit(1.0)));
        }
        "norms" => norms(n, &a, &b, s, 0),
        "norminf" => norms(n, &a, &b, s, 1),
        "norminf_laws" => norms(n, &a, &b, s, 2),
        "triangle2" => norms(n, &a, &b, s, 3),
        "space" => space(n),
        "fp_space" => {
            // linspace(a, b, n) for finite doubles a < b (|a|, |b| <= 1e100): v[i] <= v[i+1] as doubles, v[0] == a.
            // (Rounding is monotone, so a + h*i with h >= 0 cannot go down; a convex-combination formula can.)
            use ohsl_sym::Vector as V2;
            let (lo, hi) = (Sym::var("lo"), Sym::var("hi"));
            let dom = vec![le(lo.abs(), Sym::lit(1.0e100)), le(hi.abs(), Sym::lit(1.0e100)), lt(lo, hi)];
            must("linspace", || V2::<Sym>::linspace(lo, hi, n), |v| {
                if !check_that(v.size() == n, || "linspace has n elements".into()) { return; }
                prove_fp("linspace over f64 :: starts exactly at a", &dom, eq(v[0], lo));
                for i in 0..n - 1 { prove_fp(&format!("linspace over f64 :: is non-decreasing for a < b ({} -> {})", i, i + 1), &dom, le(v[i], v[i + 1])); }
            });
            control("fp_space control", eq(lo, hi));
        }
        _ => panic!("unknown C15 instance"),
    }
}

fn norms(n: usize, a: &[Sym], b: &[Sym], s: Sym, part: usize) {
    use ohsl_sym::Vector as V2;
    let mk = |x: &[Sym]| V2::<Sym>::create(x.to_vec());
    let mut sq = z();
    let mut l1 = z();
    for x in a { sq = sq + *x * *x; l1 = l1 + x.abs(); }
    let sa: Vec<Sym> = a.iter().map(|x| *x * s).collect();
    let ab: Vec<Sym> = (0..n).map(|i| a[i] + b[i]).collect();
    if part == 1 {
        must("norm_inf", || mk(a).norm_inf(), |r| {
            for i in 0..n { prove(&format!("norm_inf >= |a_{}|", i), le(a[i].abs(), r)); }
            prove("norm_inf is attained", B::or(a.iter().map(|x| eq(r, x.abs())).collect()));
        });
        must("inf <= 2 <= 1", || (mk(a).norm_inf(), mk(a).norm_2(), ohsl::Vector::create(a.to_vec()).norm_1()), |(ni, n2, n1)| {
            prove("norm_inf <= norm_2", le(ni, n2));
            prove("norm_2 <= norm_1", le(n2, n1));
        });
        control("norminf control", le(a[0].abs(), z()));
        return;
    }
    if part == 2 {
        must("homogeneity norm_inf", || (mk(&sa).norm_inf(), mk(a).norm_inf()), |(l, r)| { prove("norm_inf(s v) = |s| norm_inf(v)", eq(l, s.abs() * r)); });
        must("triangle norm_inf", || (mk(&ab).norm_inf(), mk(a).norm_inf(), mk(b).norm_inf()), |(l, r1, r2)| { prove("norm_inf(v+w) <= norm_inf(v) + norm_inf(w)", le(l, r1 + r2)); });
        control("norminf_laws control", le(a[0].abs(), z()));
        return;
    }
    if part == 3 {
        must("triangle norm_2", || (mk(&ab).norm_2(), mk(a).norm_2(), mk(b).norm_2()), |(l, r1, r2)| { prove("norm_2(v+w) <= norm_2(v) + norm_2(w)", le(l, r1 + r2)); });
        control("triangle2 control", eq(s, s + Sym::lit(1.0)));
        return;
    }
    must("norm_2", || mk(a).norm_2(), |r| { prove("norm_2^2 = sum of squares", eq(r * r, sq)); prove("norm_2 >= 0", le(z(), r)); });
    must("norm_p(2) = norm_2", || (mk(a).norm_p(Sym::lit(2.0)), mk(a).norm_2()), |(p2, n2)| { prove_eq("norm_p(2) = norm_2", p2, n2); });
    must("norm_p(1) = norm_1", || mk(a).norm_p(Sym::lit(1.0)), |p1| { prove_eq("norm_p(1) = sum |a_i|", p1, l1); });
    // homogeneity and the triangle inequality
    must("homogeneity norm_2", || (mk(&sa).norm_2(), mk(a).norm_2()), |(l, r)| { prove("norm_2(s v) = |s| norm_2(v)", eq(l, s.abs() * r)); });
    must("homogeneity norm_1", || (ohsl::Vector::create(sa.clone()).norm_1(), ohsl::Vector::create(a.to_vec()).norm_1()), |(l, r)| { prove("norm_1(s v) = |s| norm_1(v)", eq(l, s.abs() * r)); });
    must("triangle norm_1", || (ohsl::Vector::create(ab.clone()).norm_1(), ohsl::Vector::create(a.to_vec()).norm_1(), ohsl::Vector::create(b.to_vec()).norm_1()), |(l, r1, r2)| { prove("norm_1(v+w) <= norm_1(v) + norm_1(w)", le(l, r1 + r2)); });
    if n >= 1 { control("norms control", le(a[0].abs(), z())); }
    must("s * v (f64 on the left)", || s * mk(a), |r| { let ok = r.size() == n; prove("s * v length", if ok { B::True } else { B::False }); if ok { for i in 0..n { prove_eq(&format!("(s * v)[{}]", i), r[i], s * a[i]); } } });
}

fn space(n: usize) {
    use ohsl_sym::Vector as V2;
    let (a, b, p) = (Sym::var("lo"), Sym::var("hi"), Sym::var("p"));
    must("linspace", || V2::<Sym>::linspace(a, b, n), |v| {
        let ok = v.size() == n;
        prove("linspace has n elements", if ok { B::True } else { B::False });
        if !ok { return; }
        prove_eq("linspace starts exactly at a", v[0], a);
        prove_eq("linspace ends at b (exact over the reals)", v[n - 1], b);
        for i in 0..n - 1 { prove(&format!("linspace is increasing for a < b ({})", i), B::implies(lt(a, b), lt(v[i], v[i + 1]))); }
        for i in 0..n { prove(&format!("linspace element {} = a + i (b-a)/(n-1)", i), eq(v[i] * Sym::lit((n - 1) as f64), a * Sym::lit((n - 1 - i) as f64) + b * Sym::lit(i as f64))); }
    });
    must("powspace", || { assume(lt(z(), p)); V2::<Sym>::powspace(a, b, n, p) }, |v| {
        let ok = v.size() == n;
        prove("powspace has n elements", if ok { B::True } else { B::False });
        if !ok { return; }
        prove("powspace starts exactly at a", eq(v[0], a));
        prove("powspace ends at b (exact over the reals)", eq(v[n - 1], b));
        for i in 0..n - 1 { prove(&format!("powspace is increasing for a < b, p > 0 ({})", i), B::implies(lt(a, b), lt(v[i], v[i + 1]))); }
    });
    must("powspace p = 1 is linspace", || (V2::<Sym>::powspace(a, b, n, Sym::lit(1.0)), V2::<Sym>::linspace(a, b, n)), |(pw, li)| {
        for i in 0..n { prove(&format!("powspace(p=1)[{}] = linspace[{}]", i, i), eq(pw[i], li[i])); }
    });
    // the start point is exact in IEEE arithmetic too
    if !is_concrete() {
        let dom = vec![le(a.abs(), Sym::lit(1.0e100)), le(b.abs(), Sym::lit(1.0e100))];
        // rebuild with simplification-independent terms: v[0] = a + h*0
        let h = (b - a) / Sym::lit((n - 1) as f64);
        prove_fp("linspace[0] == a for all finite doubles (|a|,|b| <= 1e100)", &dom, eq(a + h * z(), a));
    }
    control("space control", eq(a, b));
}
