//! C16 - threaded dot product equals the sequential one for every length and CPU count.
//! The real scoped threads of dot_f64 run (global term arena); the worker count is
//! driven through the process CPU affinity, which is what num_cpus::get() reads.
use super::*;
use crate::util::*;
use ohsl_sym::Vector;
use symcore::*;

pub fn instances(tier: &str) -> Vec<String> {
    let lmax = if tier == "thorough" { 200 } else { 40 };
    (1..=16).map(|w| format!("dot:w={},lmax={}", w, lmax)).collect()
}

fn set_affinity(k: usize) -> bool {
    unsafe {
        let mut set: libc::cpu_set_t = std::mem::zeroed();
        libc::CPU_ZERO(&mut set);
        // take the first k CPUs of the ORIGINAL mask
        let mut orig: libc::cpu_set_t = std::mem::zeroed();
        if libc::sched_getaffinity(0, std::mem::size_of::<libc::cpu_set_t>(), &mut orig) != 0 { return false; }
        let mut got = 0;
        for c in 0..libc::CPU_SETSIZE as usize { if libc::CPU_ISSET(c, &orig) && got < k { libc::CPU_SET(c, &mut set); got += 1; } }
        if got < k { return false; }
        libc::sched_setaffinity(0, std::mem::size_of::<libc::cpu_set_t>(), &set) == 0
    }
}

pub fn body(inst: &str) {
    let (_, p) = parse_inst(inst);
    let (w, lmax) = (geti(&p, "w"), geti(&p, "lmax"));
    let applied = set_affinity(w);
    let workers = num_cpus::get();
    if !applied || workers != w {
        // fewer CPUs than requested are available to this process (cgroup quota / affinity): the
        // configuration cannot be produced here; say so instead of pretending
        note(format!("worker count {} not reachable in this environment (num_cpus::get() = {}); instance skipped", w, workers));
        check_that(true, || String::new());
        control("dot control (skipped instance)", eq(Sym::var("a_0"), Sym::var("b_0")));
        return;
    }
    note(format!("num_cpus::get() = {} worker threads", workers));
    for len in 0..=lmax {
        count_case();
        let a = var_vec("a", len);
        let b = var_vec("b", len);
        let (va, vb) = (Vector::create(a.clone()), Vector::create(b.clone()));
        let tag = format!("len {} / {} workers", len, workers);
        match catch(|| (va.dot_f64(&vb), va.dot_f64(&vb), va.dot(&vb))) {
            Ok((t1, t2, seq)) => {
                check_that(t1.same(t2), || format!("{}: two executions return different terms (result depends on scheduling)", tag));
                prove_eq(&format!("{}: threaded dot = sequential dot (every index exactly once)", tag), t1, seq);
                prove_eq(&format!("{}: threaded dot = sum a_i b_i", tag), t1, dotv(&a, &b));
            }
            Err(st) => must_not_stop(&format!("{}: dot_f64", tag), &st),
        }
    }
    let (a0, b0) = (Sym::var("a_0"), Sym::var("b_0"));
    control("dot control", eq(a0 * b0, a0 + b0));
}
