//! C16 - threaded dot product equals the sequential one for every length and CPU count.
//! The real scoped threads of dot_f64 run (global term arena); the worker count is
//! driven through the process CPU affinity, which is what num_cpus::get() reads.
use super::*;
use crate::util::*;
use ohsl_sym::Vector;
use symcore::*;

pub fn instances(tier: &str) -> Vec<String> {
    let lmax = if tier == "thorough" { 200 } else { 40 };
    (1..=16).map(|w| format!("dot:w={},lmax={}", w, lmax)).collect()
}

fn set_affinity(k: usize) -> bool {
    unsafe {
        let mut set: libc::cpu_set_t = std::mem::zeroed();
        libc::CPU_ZERO(&mut set);
        // take the first k CPUs of the ORIGINAL mask
        let mut orig: libc::cpu_set_t = std::mem::zeroed();
        if libc::sched_getaffinity(0, std::mem::size_of::<libc::cpu_set_t>(), &mut orig) != 0 { return false; }
        let mut got = 0;
        for c in 0..libc::CPU_SETSIZE as usize { if libc::CPU_ISSET(c, &orig) && got < k { libc::CPU_SET(c, &mut set); got += 1; } }
        if got < k { return false; }
        libc::sched_setaffinity(0, std::mem::size_of::<libc::cpu_set_t>(), &set) == 0
    }
}

pub fn body(inst: &str) {
    let (_, p) = parse_inst(inst);
    let (w, lmax) = (geti(&p, "w"), geti(&p, "lmax"));
    let applied = set_affinity(w);
    let workers = num_cpus::get();
    if !applied || workers != w {
        // fewer CPUs than requested are available to this process (cgroup quota / affinity): the
        // configuration cannot be produced here; say so instead of pretending
        note(format!("worker count {} not reachable in this environment (num_cpus::get() = {}); instance skipped", w, workers));
        check_that(true, || String::new());
        control("dot control (skipped instance)", eq(Sym::var("a_0"), Sym::var("b_0")));
        return;
    }
    note(format!("num_cpus::get() = {} worker threads", workers));
    const SCHED: &str = "two executions on the same data return different results (the reduction depends on thread scheduling)";
    if is_concrete() {
        // concrete replay of the scheduling clause: data whose partial sums are NOT exactly summable, many repetitions,
        // bit-identical results required (only meaningful over doubles)
        if is_float() {
            let n = 16 * workers.max(2) + 3;
            let a: Vec<Sym> = (0..n).map(|i| Sym::lit(0.1 * (i as f64) + 0.37)).collect();
            let b: Vec<Sym> = (0..n).map(|i| Sym::lit(1.0 / (1.0 + i as f64))).collect();
            let (va, vb) = (Vector::create(a), Vector::create(b));
            let first = va.dot_f64(&vb).to_f64().map(|x| x.to_bits());
            let mut same = true;
            for _ in 0..200 { if va.dot_f64(&vb).to_f64().map(|x| x.to_bits()) != first { same = false; break; } }
            check_that(same, || SCHED.into());
        }
    }
    for len in 0..=lmax {
        count_case();
        let a = var_vec("a", len);
        let b = var_vec("b", len);
        let (va, vb) = (Vector::create(a.clone()), Vector::create(b.clone()));
        let tag = format!("len {} / {} workers", len, workers);
        match catch(|| (va.dot_f64(&vb), va.dot_f64(&vb), va.dot_f64(&vb), va.dot(&vb))) {
            Ok((t1, t2, t3, seq)) => {
                // identical evaluation DAGs across executions <=> the order of the floating-point additions is fixed
                if !is_concrete() { check_that(t1.same(t2) && t1.same(t3), || SCHED.into()); }
                prove_eq(&format!("{}: threaded dot = sequential dot (every index exactly once)", tag), t1, seq);
                prove_eq(&format!("{}: threaded dot = sum a_i b_i", tag), t1, dotv(&a, &b));
            }
            Err(st) => must_not_stop(&format!("{}: dot_f64", tag), &st),
        }
    }
    let (a0, b0) = (Sym::var("a_0"), Sym::var("b_0"));
    control("dot control", eq(a0 * b0, a0 + b0));
}
