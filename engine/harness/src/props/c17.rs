//! C17 - Newton: success means the stopping criterion was met (and a root for affine maps);
//! bounded work; failure reported with the last iterate; configuration untouched.
use super::*;
use crate::util::*;
use ohsl_sym::{Cmplx, Mat64, Matrix, Newton, Vec64, Vector};
use std::cell::RefCell;
use symcore::*;

pub fn instances(tier: &str) -> Vec<String> {
    let mut v = Vec::new();
    let kmax = if tier == "thorough" { 4 } else { 3 };
    for k in 0..=kmax { v.push(format!("scalar_any:iters={}", k)); }
    for k in 2..=kmax { v.push(format!("scalar_affine:iters={}", k)); }
    for k in 0..=2 { v.push(format!("cscalar_any:iters={}", k)); }
    v.push("cscalar_affine:iters=2".into());
    for k in 0..=(if tier == "thorough" { 3 } else { 2 }) { v.push(format!("sys_any:n=1,iters={}", k)); v.push(format!("sysjac_any:n=1,iters={}", k)); }
    for k in 0..=(if tier == "thorough" { 2 } else { 1 }) { v.push(format!("sys_any:n=2,iters={}", k)); v.push(format!("sysjac_any:n=2,iters={}", k)); }
    for n in 1..=2 { v.push(format!("sys_affine:n={},iters=2", n)); v.push(format!("sysjac_affine:n={},iters=2", n)); }
    // order 3 with a user-supplied Jacobian (the pivoting of the dense solver only matters from n = 3 on; with finite
    // differences the n = 3 affine instance does not finish in 15 min)
    v.push("sysjac_affine:n=3,iters=2".into());
    v.push("sysjac_any:n=3,iters=1".into());
    v.push("csys_affine:n=1,iters=2".into());
    // complex systems with an arbitrary map (fresh complex symbols per call), finite-difference and user-supplied Jacobian
    for k in 0..=2 { v.push(format!("csys_any:n=1,iters={}", k)); v.push(format!("csysjac_any:n=1,iters={}", k)); }
    v.push("csysjac_any:n=2,iters=1".into());
    v.push("csys_any:n=2,iters=1".into());
    if tier == "thorough" { v.push("csysjac_any:n=2,iters=2".into()); }
    // a user function that returns NaN at its j-th call (and arbitrary values otherwise): success must never carry NaN
    for k in 1..=2usize { for j in 0..3 * k { v.push(format!("scalar_nan:iters={},at={}", k, j)); } }
    for j in 0..3usize { v.push(format!("cscalar_nan:iters=1,at={}", j)); }
    for j in 0..2usize { v.push(format!("sys_nan:n=1,iters=2,at={}", j)); }
    for j in 0..2usize { v.push(format!("sysjac_nan:n=1,iters=2,at={}", j)); }
    // NaN in a component other than the first (the infinity norm of the residual must not skip it)
    for j in 0..2usize { v.push(format!("sys_nan:n=2,iters=2,at={},pos=1", j)); v.push(format!("sysjac_nan:n=2,iters=2,at={},pos=1", j)); }
    if tier == "thorough" { for j in 0..2usize { for pos in 0..3usize { v.push(format!("sysjac_nan:n=3,iters=2,at={},pos={}", j, pos)); } } }
    v
}

fn z() -> Sym { Sym::lit(0.0) }

fn params_unchanged<T: Copy>(tag: &str, before: (Sym, Sym, usize, T), after: (Sym, Sym, usize, T), same_guess: impl Fn(&T, &T) -> bool) {
    let ok = before.0.same(after.0) && before.1.same(after.1) && before.2 == after.2 && same_guess(&before.3, &after.3);
    prove(&format!("{}: parameters() (tol, delta, max_iter, guess) unchanged by solve", tag), if ok { B::True } else { B::False });
}

pub fn body(inst: &str) {
    let (kind, p) = parse_inst(inst);
    let iters = geti(&p, "iters");
    let n = geti(&p, "n").max(1);
    let (tol, delta) = (Sym::var("tol"), Sym::var("delta"));
    assume(le(z(), tol));
    assume(ne(delta, z()));
    match kind.as_str() {
        "scalar_any" | "scalar_affine" => {
            let x0 = Sym::var("x0");
            let (m, c) = (Sym::var("m"), Sym::var("c"));
            let affine = kind == "scalar_affine";
            if affine { assume(ne(m, z())); }
            let calls: RefCell<Vec<(Sym, Sym)>> = RefCell::new(Vec::new());
            let f = |x: Sym| -> Sym { let k = calls.borrow().len(); let out = if affine { m * x + c } else { Sym::var(&format!("f_{}", k)) }; calls.borrow_mut().push((x, out)); out };
            let mut nw = Newton::<Sym>::new(x0);
            nw.tolerance(tol); nw.delta(delta); nw.iterations(iters);
            let before = nw.parameters();
            let r = catch(|| nw.solve(&f));
            let after = nw.parameters();
            params_unchanged("scalar", before, after, |a, b| a.same(*b));
            let calls = calls.borrow();
            match r {
                Ok(res) => {
                    // bounded work: a small constant number of evaluations per allowed iteration (the code uses 3; a different
                    // difference scheme would still be bounded) and none at all when no iteration is allowed
                    prove(&format!("evaluations bounded by max_iter (made {} with max_iter = {})", calls.len(), iters), if calls.len() <= 6 * iters { B::True } else { B::False });
                    if calls.len() % 3 != 0 || !(0..calls.len() / 3).all(|i| calls[3 * i].0.same(calls[3 * i + 2].0 + delta) && calls[3 * i + 1].0.same(calls[3 * i + 2].0 - delta)) {
                        note("evaluation pattern is not (x+delta, x-delta, x): step reconstruction skipped".into());
                        return;
                    }
                    let done = calls.len() / 3;
                    // reconstruct the Newton steps from the recorded evaluations
                    let step = |i: usize| -> Sym { let (fp, fm, fc) = (calls[3 * i].1, calls[3 * i + 1].1, calls[3 * i + 2].1); fc / ((fp - fm) / (Sym::lit(2.0) * delta)) };
                    match res {
                        Ok(v) => {
                            prove("Ok needs at least one iteration", if done >= 1 { B::True } else { B::False });
                            if done >= 1 {
                                must("reconstruct", || step(done - 1), |dx| { prove("Ok is returned only when the stopping criterion |dx| <= tol was met", le(dx.abs(), tol)); prove_eq("Ok carries the iterate after the last step", v, calls[3 * (done - 1) + 2].0 - dx); });
                                if affine { prove("affine map: the returned point is the root", eq(m * v + c, z())); prove("affine map: success within two iterations", if done <= 2 { B::True } else { B::False }); }
                            }
                        }
                        Err(v) => {
                            prove("Err only after max_iter iterations", if done == iters { B::True } else { B::False });
                            if affine && iters >= 2 { prove("affine map with max_iter >= 2 must converge", B::False); }
                            if done == iters {
                                if iters == 0 { prove_eq("Err carries the guess when no iteration ran", v, x0); }
                                else { must("reconstruct", || step(done - 1), |dx| { prove_eq("Err carries the last iterate", v, calls[3 * (done - 1) + 2].0 - dx); prove("criterion was not met in the last iteration", lt(tol, dx.abs())); }); }
                            }
                        }
                    }
                    // the evaluation points are current +/- delta and current
                    for i in 0..done { prove_eq(&format!("iteration {}: evaluates at current+delta", i), calls[3 * i].0, calls[3 * i + 2].0 + delta); prove_eq(&format!("iteration {}: evaluates at current-delta", i), calls[3 * i + 1].0, calls[3 * i + 2].0 - delta); }
                    if done >= 1 { prove_eq("first iteration starts at the guess", calls[2].0, x0); }
                }
                Err(Stop::DivZero { .. }) => { check_that(calls.len() <= 6 * iters, || "evaluation bound on a zero-derivative path".into()); note("zero finite-difference derivative: IEEE inf/NaN continuation is not modelled (path ends)".into()); }
                Err(st) => must_not_stop("Newton::solve", &st),
            }
            control("scalar control", eq(tol, tol + Sym::lit(1.0)));
        }
        "scalar_nan" => {
            let at = geti(&p, "at");
            let x0 = Sym::var("x0");
            let calls: RefCell<usize> = RefCell::new(0);
            // the function returns NaN at its `at`-th call and, like every arithmetic function, whenever its argument is NaN
            let f = |x: Sym| -> Sym { let k = *calls.borrow(); *calls.borrow_mut() += 1; if k == at || x.is_nan() { Sym::NAN } else { Sym::var(&format!("f_{}", k)) } };
            let mut nw = Newton::<Sym>::new(x0);
            nw.tolerance(tol); nw.delta(delta); nw.iterations(iters);
            match catch(|| nw.solve(&f)) {
                Ok(Ok(v)) => { prove("success is never reported with a NaN point (function returned NaN)", if v.is_nan() { B::False } else { B::True }); }
                Ok(Err(_)) => { check_that(*calls.borrow() <= 6 * iters, || "evaluation bound".into()); }
                Err(Stop::DivZero { .. }) => { check_that(true, || String::new()); }
                Err(st) => must_not_stop("Newton::solve with a NaN-returning function", &st),
            }
        }
        "cscalar_nan" => {
            let at = geti(&p, "at");
            let x0 = Cmplx::new(Sym::var("x0r"), Sym::var("x0i"));
            let calls: RefCell<usize> = RefCell::new(0);
            let f = |x: Cmplx| -> Cmplx { let k = *calls.borrow(); *calls.borrow_mut() += 1; if k == at || x.real.is_nan() || x.imag.is_nan() { Cmplx::new(Sym::NAN, Sym::NAN) } else { Cmplx::new(Sym::var(&format!("fr_{}", k)), Sym::var(&format!("fi_{}", k))) } };
            let mut nw = Newton::<Cmplx>::new(x0);
            nw.tolerance(tol); nw.delta(delta); nw.iterations(iters);
            match catch(|| nw.solve(&f)) {
                Ok(Ok(v)) => { prove("complex: success is never reported with a NaN point", if v.real.is_nan() || v.imag.is_nan() { B::False } else { B::True }); }
                Ok(Err(_)) => { check_that(true, || String::new()); }
                Err(Stop::DivZero { .. }) | Err(Stop::Domain { .. }) => { check_that(true, || String::new()); }
                Err(st) => must_not_stop("Newton<Cmplx>::solve with a NaN-returning function", &st),
            }
        }
        "sys_nan" | "sysjac_nan" => {
            let at = geti(&p, "at");
            let pos = p.get("pos").map(|s| s.parse::<usize>().unwrap()).unwrap_or(0);
            let x0 = var_vec("x0", n);
            let calls: RefCell<usize> = RefCell::new(0);
            // NaN is injected into a RESIDUAL evaluation (the call that the stopping test looks at); NaN arguments give NaN results
            let per = if kind == "sysjac_nan" { 1 } else { n + 2 };
            let f = |x: Vec64| -> Vec64 { let k = *calls.borrow(); *calls.borrow_mut() += 1; let poisoned = (0..x.size()).any(|i| x[i].is_nan()); Vector::create((0..n).map(|i| if poisoned || (k == at * per && i == pos) { Sym::NAN } else { Sym::var(&format!("F{}_{}", k, i)) }).collect()) };
            let jc: RefCell<usize> = RefCell::new(0);
            let jac = |_x: Vec64| -> Mat64 { let k = *jc.borrow(); *jc.borrow_mut() += 1; let mut j = Mat64::new(n, n, z()); for a in 0..n { for b in 0..n { j[(a, b)] = Sym::var(&format!("J{}_{}_{}", k, a, b)); } } j };
            let mut nw = Newton::<Vec64>::new(Vector::create(x0.clone()));
            nw.tolerance(tol); nw.delta(delta); nw.iterations(iters);
            match catch(|| if kind == "sysjac_nan" { nw.solve_jacobian(&f, &jac) } else { nw.solve(&f) }) {
                Ok(Ok(_v)) => {
                    // a NaN residual never satisfies the stopping test, and every later residual is NaN as well
                    let done = (*calls.borrow() + per - 1) / per;
                    prove("system: success is not reported at or after an iteration whose residual was NaN", if done > at { B::False } else { B::True });
                }
                Ok(Err(_)) => { check_that(true, || String::new()); }
                Err(Stop::DivZero { .. }) => { check_that(true, || String::new()); }
                Err(st) => must_not_stop("Newton<Vec64> with a NaN-returning function", &st),
            }
        }
        "cscalar_any" | "cscalar_affine" => {
            let x0 = Cmplx::new(Sym::var("x0r"), Sym::var("x0i"));
            let (m, c) = (Cmplx::new(Sym::var("mr"), Sym::var("mi")), Cmplx::new(Sym::var("cr"), Sym::var("ci")));
            let affine = kind == "cscalar_affine";
            if affine { assume(B::or(vec![ne(m.real, z()), ne(m.imag, z())])); }
            let calls: RefCell<Vec<(Cmplx, Cmplx)>> = RefCell::new(Vec::new());
            let f = |x: Cmplx| -> Cmplx { let k = calls.borrow().len(); let out = if affine { m * x + c } else { Cmplx::new(Sym::var(&format!("fr_{}", k)), Sym::var(&format!("fi_{}", k))) }; calls.borrow_mut().push((x, out)); out };
            let mut nw = Newton::<Cmplx>::new(x0);
            nw.tolerance(tol); nw.delta(delta); nw.iterations(iters);
            let before = nw.parameters();
            let r = catch(|| nw.solve(&f));
            let after = nw.parameters();
            params_unchanged("complex scalar", before, after, |a, b| a.real.same(b.real) && a.imag.same(b.imag));
            let calls = calls.borrow();
            match r {
                Ok(res) => {
                    prove(&format!("evaluations bounded by max_iter (made {} with max_iter = {})", calls.len(), iters), if calls.len() <= 6 * iters { B::True } else { B::False });
                    let done = calls.len() / 3;
                    match res {
                        Ok(v) => {
                            prove("Ok needs at least one iteration", if done >= 1 { B::True } else { B::False });
                            if affine { let rv = m * v + c; prove("affine map: real part of f(result) is zero", eq(rv.real, z())); prove("affine map: imaginary part of f(result) is zero", eq(rv.imag, z())); }
                        }
                        Err(v) => {
                            prove("Err only after max_iter iterations", if done == iters { B::True } else { B::False });
                            if affine { prove("affine map with max_iter >= 2 must converge", B::False); }
                            if iters == 0 { prove("Err carries the guess when no iteration ran", if v.real.same(x0.real) && v.imag.same(x0.imag) { B::True } else { B::False }); }
                        }
                    }
                }
                Err(Stop::DivZero { .. }) => { check_that(calls.len() <= 6 * iters, || "evaluation bound on a zero-derivative path".into()); }
                Err(st) => must_not_stop("Newton<Cmplx>::solve", &st),
            }
            control("cscalar control", eq(tol, tol + Sym::lit(1.0)));
        }
        "sys_any" | "sys_affine" | "sysjac_any" | "sysjac_affine" => {
            let x0 = var_vec("x0", n);
            let mm = var_grid("M", n, n);
            let c = var_vec("c", n);
            let affine = kind.ends_with("affine");
            let with_jac = kind.starts_with("sysjac");
            if affine { assume(ne(det(&mm), z())); }
            let fcalls: RefCell<Vec<(Vec<Sym>, Vec<Sym>)>> = RefCell::new(Vec::new());
            let jcalls: RefCell<usize> = RefCell::new(0);
            let f = |x: Vec64| -> Vec64 {
                let k = fcalls.borrow().len();
                let xs: Vec<Sym> = (0..x.size()).map(|i| x[i]).collect();
                let out: Vec<Sym> = if affine { (0..n).map(|i| { let mut acc = c[i]; for t in 0..n { acc = acc + mm[i][t] * xs[t]; } acc }).collect() } else { (0..n).map(|i| Sym::var(&format!("F{}_{}", k, i))).collect() };
                fcalls.borrow_mut().push((xs, out.clone()));
                Vector::create(out)
            };
            let jac = |_x: Vec64| -> Mat64 {
                let k = *jcalls.borrow();
                *jcalls.borrow_mut() += 1;
                let mut j = Mat64::new(n, n, z());
                for a in 0..n { for b in 0..n { j[(a, b)] = if affine { mm[a][b] } else { Sym::var(&format!("J{}_{}_{}", k, a, b)) }; } }
                j
            };
            let mut nw = Newton::<Vec64>::new(Vector::create(x0.clone()));
            nw.tolerance(tol); nw.delta(delta); nw.iterations(iters);
            let r = catch(|| if with_jac { nw.solve_jacobian(&f, &jac) } else { nw.solve(&f) });
            let fc = fcalls.borrow();
            let per_iter = if with_jac { 1 } else { n + 2 };
            match r {
                Ok(res) => {
                    prove(&format!("function evaluations bounded by max_iter (made {} with max_iter = {})", fc.len(), iters), if fc.len() <= (2 * n + 4) * iters { B::True } else { B::False });
                    if with_jac { prove("Jacobian evaluations bounded by max_iter", if *jcalls.borrow() <= 2 * iters { B::True } else { B::False }); }
                    if fc.len() % per_iter != 0 { note("evaluation pattern differs from one residual (+ n+1 Jacobian) evaluation(s) per iteration: residual reconstruction skipped".into()); return; }
                    let done = fc.len() / per_iter;
                    let resid = |i: usize| -> Vec<Sym> { fc[per_iter * i].1.clone() };
                    match res {
                        Ok(v) => {
                            prove("Ok needs at least one iteration", if done >= 1 { B::True } else { B::False });
                            if done >= 1 {
                                for t in 0..n { prove(&format!("Ok only when the residual criterion max|F_i| <= tol was met (component {})", t), le(resid(done - 1)[t].abs(), tol)); }
                                if affine { for i in 0..n { let mut acc = c[i]; for t in 0..n { acc = acc + mm[i][t] * v[t]; } prove(&format!("affine system: component {} of F(result) is zero", i), eq(acc, z())); } }
                            }
                        }
                        Err(v) => {
                            prove("Err only after max_iter iterations", if done == iters { B::True } else { B::False });
                            if affine && iters >= 2 { prove("affine system with max_iter >= 2 must converge", B::False); }
                            if iters == 0 { for t in 0..n { prove_eq("Err carries the guess when no iteration ran", v[t], x0[t]); } }
                            if done >= 1 && done == iters { prove("criterion was not met in the last iteration", B::or((0..n).map(|t| lt(tol, resid(done - 1)[t].abs())).collect())); }
                        }
                    }
                    if done >= 1 { for t in 0..n { prove_eq("first residual is evaluated at the guess", fc[0].0[t], x0[t]); } }
                }
                // (an affine map with det M != 0 has a nonsingular Jacobian everywhere: a zero divisor there is the linear solver's fault)
                Err(Stop::DivZero { .. }) if !affine => { check_that(fc.len() <= (2 * n + 4) * iters, || "evaluation bound on a singular-Jacobian path".into()); note("singular Jacobian: IEEE inf/NaN continuation is not modelled (path ends)".into()); }
                Err(st) => must_not_stop("Newton<Vec64>::solve (nonsingular affine system: the step must be computable)", &st),
            }
            drop(fc);
            if affine {
                // configuration and guess untouched: a second call gives the identical result
                let r1 = catch(|| if with_jac { nw.solve_jacobian(&f, &jac) } else { nw.solve(&f) });
                let r2 = catch(|| if with_jac { nw.solve_jacobian(&f, &jac) } else { nw.solve(&f) });
                if let (Ok(Ok(a)), Ok(Ok(b))) = (r1, r2) { let same = a.size() == b.size() && (0..a.size()).all(|t| a[t].same(b[t])); prove("repeated calls give identical results", if same { B::True } else { B::False }); }
            }
            control("sys control", eq(tol, tol + Sym::lit(1.0)));
        }
        "csys_affine" => {
            let x0 = Cmplx::new(Sym::var("x0r"), Sym::var("x0i"));
            let (m, c) = (Cmplx::new(Sym::var("mr"), Sym::var("mi")), Cmplx::new(Sym::var("cr"), Sym::var("ci")));
            assume(B::or(vec![ne(m.real, z()), ne(m.imag, z())]));
            let f = |x: Vector<Cmplx>| -> Vector<Cmplx> { Vector::create(vec![m * x[0] + c]) };
            let jac = |_x: Vector<Cmplx>| -> Matrix<Cmplx> { let mut j = Matrix::<Cmplx>::new(1, 1, Cmplx::new(z(), z())); j[(0, 0)] = m; j };
            let mut nw = Newton::<Vector<Cmplx>>::new(Vector::create(vec![x0]));
            nw.tolerance(tol); nw.delta(delta); nw.iterations(iters);
            for (tag, r) in [("solve", catch(|| nw.solve(&f))), ("solve_jacobian", catch(|| nw.solve_jacobian(&f, &jac)))] {
                match r {
                    Ok(Ok(v)) => { let rv = m * v[0] + c; prove(&format!("complex affine system ({}): Re F(result) = 0", tag), eq(rv.real, z())); prove(&format!("complex affine system ({}): Im F(result) = 0", tag), eq(rv.imag, z())); }
                    Ok(Err(_)) => { prove(&format!("complex affine system ({}) with max_iter >= 2 must converge", tag), B::False); }
                    Err(Stop::DivZero { .. }) => { note("division by zero path".into()); }
                    Err(st) => must_not_stop("Newton<Vector<Cmplx>>", &st),
                }
            }
            control("csys control", eq(tol, tol + Sym::lit(1.0)));
        }
        "csys_any" | "csysjac_any" => {
            let with_jac = kind.starts_with("csysjac");
            let x0: Vec<Cmplx> = (0..n).map(|i| Cmplx::new(Sym::var(&format!("x0r_{}", i)), Sym::var(&format!("x0i_{}", i)))).collect();
            let fcalls: RefCell<Vec<(Vec<Cmplx>, Vec<Cmplx>)>> = RefCell::new(Vec::new());
            let jcalls: RefCell<usize> = RefCell::new(0);
            let f = |x: Vector<Cmplx>| -> Vector<Cmplx> {
                let k = fcalls.borrow().len();
                let xs: Vec<Cmplx> = (0..x.size()).map(|i| x[i]).collect();
                let out: Vec<Cmplx> = (0..n).map(|i| Cmplx::new(Sym::var(&format!("Fr{}_{}", k, i)), Sym::var(&format!("Fi{}_{}", k, i)))).collect();
                fcalls.borrow_mut().push((xs, out.clone()));
                Vector::create(out)
            };
            let jac = |_x: Vector<Cmplx>| -> Matrix<Cmplx> {
                let k = *jcalls.borrow();
                *jcalls.borrow_mut() += 1;
                let mut j = Matrix::<Cmplx>::new(n, n, Cmplx::new(z(), z()));
                for a in 0..n { for b in 0..n { j[(a, b)] = Cmplx::new(Sym::var(&format!("Jr{}_{}_{}", k, a, b)), Sym::var(&format!("Ji{}_{}_{}", k, a, b))); } }
                j
            };
            let mut nw = Newton::<Vector<Cmplx>>::new(Vector::create(x0.clone()));
            nw.tolerance(tol); nw.delta(delta); nw.iterations(iters);
            let r = catch(|| if with_jac { nw.solve_jacobian(&f, &jac) } else { nw.solve(&f) });
            let fc = fcalls.borrow();
            let per_iter = if with_jac { 1 } else { n + 2 };
            let tag = if with_jac { "complex system, user Jacobian" } else { "complex system, finite differences" };
            match r {
                Ok(res) => {
                    prove(&format!("{}: function evaluations bounded by max_iter (made {} with max_iter = {})", tag, fc.len(), iters), if fc.len() <= (2 * n + 4) * iters { B::True } else { B::False });
                    if with_jac { prove(&format!("{}: Jacobian evaluations bounded by max_iter", tag), if *jcalls.borrow() <= 2 * iters { B::True } else { B::False }); }
                    if fc.len() % per_iter != 0 { note("evaluation pattern differs from one residual (+ n+1 Jacobian) evaluation(s) per iteration: residual reconstruction skipped".into()); return; }
                    let done = fc.len() / per_iter;
                    let resid = |i: usize| -> Vec<Cmplx> { fc[per_iter * i].1.clone() };
                    let m2 = |c: Cmplx| c.real * c.real + c.imag * c.imag;
                    match res {
                        Ok(_v) => {
                            prove(&format!("{}: Ok needs at least one iteration", tag), if done >= 1 { B::True } else { B::False });
                            if done >= 1 { for t in 0..n { prove(&format!("{}: Ok only when the residual criterion max|F_i| <= tol was met (|F_{}|^2 <= tol^2, both parts count)", tag, t), le(m2(resid(done - 1)[t]), tol * tol)); } }
                        }
                        Err(v) => {
                            prove(&format!("{}: Err only after max_iter iterations", tag), if done == iters { B::True } else { B::False });
                            if iters == 0 { for t in 0..n { prove_eq(&format!("{}: Err carries the guess when no iteration ran (re)", tag), v[t].real, x0[t].real); prove_eq(&format!("{}: Err carries the guess when no iteration ran (im)", tag), v[t].imag, x0[t].imag); } }
                            if done >= 1 && done == iters { prove(&format!("{}: criterion was not met in the last iteration", tag), B::or((0..n).map(|t| lt(tol * tol, m2(resid(done - 1)[t]))).collect())); }
                        }
                    }
                    if done >= 1 { for t in 0..n { prove_eq(&format!("{}: first residual is evaluated at the guess (re)", tag), fc[0].0[t].real, x0[t].real); prove_eq(&format!("{}: first residual is evaluated at the guess (im)", tag), fc[0].0[t].imag, x0[t].imag); } }
                }
                Err(Stop::DivZero { .. }) => { check_that(fc.len() <= (2 * n + 4) * iters, || "evaluation bound on a singular-Jacobian path".into()); note("singular Jacobian: IEEE inf/NaN continuation is not modelled (path ends)".into()); }
                Err(st) => must_not_stop("Newton<Vector<Cmplx>>::solve", &st),
            }
            control("csys_any control", eq(tol, tol + Sym::lit(1.0)));
        }
        _ => panic!("unknown C17 instance"),
    }
}
