//! C18 - finite-difference Jacobian is m x n and equals the difference quotients.
use super::*;
use crate::util::*;
use ohsl_sym::{Cmplx, Mat64, Matrix, Vec64, Vector};
use std::cell::RefCell;
use symcore::*;

pub fn instances(tier: &str) -> Vec<String> {
    let mmax = if tier == "thorough" { 6 } else { 3 };
    let mut v = Vec::new();
    for m in 1..=mmax { for n in 1..=mmax {
        v.push(format!("any:m={},n={}", m, n));
        v.push(format!("affine:m={},n={}", m, n));
    } }
    let cmax = if tier == "thorough" { 4 } else { 2 };
    for m in 1..=cmax { for n in 1..=cmax { v.push(format!("cany:m={},n={}", m, n)); v.push(format!("caffine:m={},n={}", m, n)); } }
    // "each coordinate is restored before the next is perturbed" over f64: the restored value must be the SAME double
    v.push("fp_restore:m=1,n=2,of=real".into());
    v.push("fp_restore:m=1,n=2,of=complex".into());
    v
}

fn z() -> Sym { Sym::lit(0.0) }

pub fn body(inst: &str) {
    let (kind, p) = parse_inst(inst);
    let (m, n) = (geti(&p, "m"), geti(&p, "n"));
    let x = var_vec("x", n);
    let delta = Sym::var("delta");
    assume(ne(delta, z()));
    match kind.as_str() {
        "fp_restore" => {
            // Over the reals (x + delta) - delta = x; in f64 it is x only when the sum is exact.  The statement asks for the
            // coordinate to be restored, so every later evaluation must see the very same double: identical term, else
            // bit-identity for all finite doubles (QF_FP), replayed on the doubles.
            let complex = p.get("of").map(|s| s == "complex").unwrap_or(false);
            let group = format!("{} Jacobian: a perturbed coordinate is restored to the same double before the next evaluation", if complex { "complex" } else { "real" });
            // the statement's own range: evaluation points in [-4, 4]^n, steps between 1e-9 and 2^-4
            let mut dom: Vec<B> = vec![le(Sym::lit(1.0e-9), delta), le(delta, Sym::lit(0.0625))];
            for k in 0..n { dom.push(le(x[k].abs(), Sym::lit(4.0))); }
            let same = |what: &str, got: Sym, want: Sym| {
                if got.same(want) { count_case(); check_that(true, || String::new()); }
                else { prove_fp(&format!("{} :: {}", group, what), &dom, B::or(vec![eq(got, want), B::and(vec![ne(got, got), ne(want, want)])])); }
            };
            if !complex {
                let calls: RefCell<Vec<Vec<Sym>>> = RefCell::new(Vec::new());
                let f = |v: Vec64| -> Vec64 { let k = calls.borrow().len(); calls.borrow_mut().push((0..v.size()).map(|i| v[i]).collect()); Vector::create((0..m).map(|i| Sym::var(&format!("F{}_{}", k, i))).collect()) };
                match catch(|| Mat64::jacobian(Vector::create(x.clone()), &f, delta)) {
                    Ok(_) => { let calls = calls.borrow(); if check_that(calls.len() == n + 1, || "n+1 evaluations".into()) { for jc in 0..n { for k in 0..n { if k != jc { same(&format!("evaluation {} coordinate {}", jc + 1, k), calls[jc + 1][k], x[k]); } } } } }
                    Err(st) => must_not_stop("jacobian", &st),
                }
            } else {
                let xi = var_vec("xi", n);
                let pt: Vec<Cmplx> = (0..n).map(|k| Cmplx::new(x[k], xi[k])).collect();
                let calls: RefCell<Vec<Vec<Cmplx>>> = RefCell::new(Vec::new());
                let f = |v: Vector<Cmplx>| -> Vector<Cmplx> { let k = calls.borrow().len(); calls.borrow_mut().push((0..v.size()).map(|i| v[i]).collect()); Vector::create((0..m).map(|i| Cmplx::new(Sym::var(&format!("Fr{}_{}", k, i)), Sym::var(&format!("Fi{}_{}", k, i)))).collect()) };
                match catch(|| Matrix::<Cmplx>::jacobian_cmplx(Vector::create(pt.clone()), &f, delta)) {
                    Ok(_) => { let calls = calls.borrow(); if check_that(calls.len() == n + 1, || "n+1 evaluations".into()) { for jc in 0..n { for k in 0..n { if k != jc { same(&format!("evaluation {} coordinate {} (real part)", jc + 1, k), calls[jc + 1][k].real, pt[k].real); same(&format!("evaluation {} coordinate {} (imaginary part)", jc + 1, k), calls[jc + 1][k].imag, pt[k].imag); } } } } }
                    Err(st) => must_not_stop("jacobian_cmplx", &st),
                }
            }
            control("fp_restore control", eq(delta, delta + Sym::lit(1.0)));
        }
        "any" => {
            // the map is arbitrary: every call returns fresh symbols; its arguments are recorded
            let calls: RefCell<Vec<Vec<Sym>>> = RefCell::new(Vec::new());
            let outs: RefCell<Vec<Vec<Sym>>> = RefCell::new(Vec::new());
            let f = |v: Vec64| -> Vec64 {
                let k = calls.borrow().len();
                calls.borrow_mut().push((0..v.size()).map(|i| v[i]).collect());
                let out: Vec<Sym> = (0..m).map(|i| Sym::var(&format!("F{}_{}", k, i))).collect();
                outs.borrow_mut().push(out.clone());
                Vector::create(out)
            };
            match catch(|| Mat64::jacobian(Vector::create(x.clone()), &f, delta)) {
                Ok(j) => {
                    let ok = j.rows() == m && j.cols() == n;
                    prove(&format!("Jacobian of a map R^{} -> R^{} is {}x{}", n, m, m, n), if ok { B::True } else { B::False });
                    let calls = calls.borrow();
                    let outs = outs.borrow();
                    prove("exactly n+1 evaluations", if calls.len() == n + 1 { B::True } else { B::False });
                    if ok && calls.len() == n + 1 {
                        for k in 0..n { prove_eq(&format!("base evaluation at the given point (coordinate {})", k), calls[0][k], x[k]); }
                        for jc in 0..n {
                            for k in 0..n {
                                if k == jc { prove_eq(&format!("evaluation {} perturbs coordinate {} by delta", jc + 1, jc), calls[jc + 1][k], x[k] + delta); }
                                else { prove_eq(&format!("evaluation {} leaves coordinate {} at the base point (restored)", jc + 1, k), calls[jc + 1][k], x[k]); }
                            }
                            for i in 0..m { prove_eq(&format!("entry ({},{}) is the forward difference quotient", i, jc), j[(i, jc)] * delta, outs[jc + 1][i] - outs[0][i]); }
                        }
                        control("any control", eq(j[(0, 0)], outs[0][0]));
                    }
                }
                Err(st) => must_not_stop(&format!("jacobian of a map R^{} -> R^{}", n, m), &st),
            }
        }
        "affine" => {
            let mm = var_grid("M", m, n);
            let c = var_vec("c", m);
            let f = |v: Vec64| -> Vec64 { Vector::create((0..m).map(|i| { let mut acc = c[i]; for k in 0..n { acc = acc + mm[i][k] * v[k]; } acc }).collect()) };
            match catch(|| Mat64::jacobian(Vector::create(x.clone()), &f, delta)) {
                Ok(j) => {
                    let ok = j.rows() == m && j.cols() == n;
                    prove("Jacobian shape m x n", if ok { B::True } else { B::False });
                    if ok { for i in 0..m { for k in 0..n { prove_eq(&format!("affine map: J[{},{}] = M[{},{}] exactly", i, k, i, k), j[(i, k)], mm[i][k]); } } control("affine control", eq(j[(0, 0)], mm[0][0] + delta)); }
                }
                Err(st) => must_not_stop("jacobian of an affine map", &st),
            }
        }
        "cany" | "caffine" => {
            let xi = var_vec("xi", n);
            let pt: Vec<Cmplx> = (0..n).map(|k| Cmplx::new(x[k], xi[k])).collect();
            let calls: RefCell<Vec<Vec<Cmplx>>> = RefCell::new(Vec::new());
            let outs: RefCell<Vec<Vec<Cmplx>>> = RefCell::new(Vec::new());
            let mm: Vec<Vec<Cmplx>> = (0..m).map(|i| (0..n).map(|k| Cmplx::new(Sym::var(&format!("Mr_{}_{}", i, k)), Sym::var(&format!("Mi_{}_{}", i, k)))).collect()).collect();
            let affine = kind == "caffine";
            let f = |v: Vector<Cmplx>| -> Vector<Cmplx> {
                let k = calls.borrow().len();
                calls.borrow_mut().push((0..v.size()).map(|i| v[i]).collect());
                let out: Vec<Cmplx> = if affine {
                    (0..m).map(|i| { let mut acc = Cmplx::new(Sym::var(&format!("cr_{}", i)), Sym::var(&format!("ci_{}", i))); for t in 0..n { acc = acc + mm[i][t] * v[t]; } acc }).collect()
                } else {
                    (0..m).map(|i| Cmplx::new(Sym::var(&format!("Fr{}_{}", k, i)), Sym::var(&format!("Fi{}_{}", k, i)))).collect()
                };
                outs.borrow_mut().push(out.clone());
                Vector::create(out)
            };
            match catch(|| Matrix::<Cmplx>::jacobian_cmplx(Vector::create(pt.clone()), &f, delta)) {
                Ok(j) => {
                    let ok = j.rows() == m && j.cols() == n;
                    prove(&format!("complex Jacobian of a map C^{} -> C^{} is {}x{}", n, m, m, n), if ok { B::True } else { B::False });
                    let calls = calls.borrow();
                    let outs = outs.borrow();
                    prove("exactly n+1 evaluations", if calls.len() == n + 1 { B::True } else { B::False });
                    if ok && calls.len() == n + 1 {
                        for jc in 0..n {
                            for k in 0..n {
                                let want_re = if k == jc { x[k] + delta } else { x[k] };
                                prove_eq(&format!("evaluation {}: real part of coordinate {}", jc + 1, k), calls[jc + 1][k].real, want_re);
                                prove_eq(&format!("evaluation {}: imaginary part of coordinate {} untouched", jc + 1, k), calls[jc + 1][k].imag, xi[k]);
                            }
                            for i in 0..m {
                                if affine {
                                    prove_eq(&format!("affine: Re J[{},{}]", i, jc), j[(i, jc)].real, mm[i][jc].real);
                                    prove_eq(&format!("affine: Im J[{},{}]", i, jc), j[(i, jc)].imag, mm[i][jc].imag);
                                } else {
                                    prove_eq(&format!("Re entry ({},{}) * delta", i, jc), j[(i, jc)].real * delta, outs[jc + 1][i].real - outs[0][i].real);
                                    prove_eq(&format!("Im entry ({},{}) * delta", i, jc), j[(i, jc)].imag * delta, outs[jc + 1][i].imag - outs[0][i].imag);
                                }
                            }
                        }
                        control("complex control", eq(j[(0, 0)].real, j[(0, 0)].real + delta));
                    }
                }
                Err(st) => must_not_stop(&format!("jacobian_cmplx of a map C^{} -> C^{}", n, m), &st),
            }
        }
        _ => panic!("unknown C18 instance"),
    }
}
