//! C19 - meshes return what was stored; interpolation/quadrature exact on (bi)linear data.
use super::*;
use crate::util::*;
use ohsl_sym::{Mesh1D, Mesh2D, Vector};
use std::cell::RefCell;
use symcore::*;

pub fn instances(tier: &str) -> Vec<String> {
    let mut v = Vec::new();
    let (n1, n2, nv) = if tier == "thorough" { (6, 4, 3) } else { (4, 3, 2) };
    for nn in 1..=n1 { for k in 1..=nv { v.push(format!("store1d:nn={},nv={}", nn, k)); } }
    for nx in 1..=n2 { for ny in 1..=n2 { for k in 1..=nv { v.push(format!("store2d:nx={},ny={},nv={}", nx, ny, k)); } } }
    for nn in 2..=n1 { v.push(format!("quad1d:nn={}", nn)); for c in 0..nn - 1 { v.push(format!("interp_cell:nn={},cell={}", nn, c)); } for k in 0..nn { v.push(format!("interp_node:nn={},node={}", nn, k)); } }
    for nx in 2..=n2 { for ny in 2..=n2 { v.push(format!("quad2d:nx={},ny={}", nx, ny)); } }
    // the statement's own f64 domain (dyadic grid, integer data, "so f64 results are exact"): the very same doubles
    for nn in 2..=(if tier == "thorough" { 4 } else { 3 }) { v.push(format!("fp_interp:nn={}", nn)); }
    v
}

fn z() -> Sym { Sym::lit(0.0) }
fn vv(x: &[Sym]) -> Vector<Sym> { Vector::create(x.to_vec()) }

/// symbolic, strictly increasing nodes with gaps of at least 1e-3
fn nodes(p: &str, n: usize) -> Vec<Sym> {
    let x = var_vec(p, n);
    for i in 0..n.saturating_sub(1) { assume(le(x[i] + Sym::lit(1.0e-3), x[i + 1])); }
    x
}

pub fn body(inst: &str) {
    let (kind, p) = parse_inst(inst);
    match kind.as_str() {
        "store1d" => {
            let (nn, nv) = (geti(&p, "nn"), geti(&p, "nv"));
            let xs = var_vec("x", nn);
            let data = var_grid("d", nn, nv);
            let mut m = Mesh1D::<Sym, Sym>::new(vv(&xs), nv);
            check_that(m.nnodes() == nn && m.nvars() == nv, || "nnodes/nvars".into());
            for k in 0..nn { must("fresh mesh is zero", || m.get_nodes_vars(k), |r| expect_vec("fresh mesh", &r, &vec![z(); nv])); }
            // arbitrary state: every node written (in reverse order), through both write paths
            for k in (0..nn).rev() {
                if k % 2 == 0 { let r = catch(|| m.set_nodes_vars(k, vv(&data[k]))); if let Err(st) = r { must_not_stop("set_nodes_vars", &st); } }
                else { for v in 0..nv { m[k][v] = data[k][v]; } }
            }
            for k in 0..nn {
                must("get_nodes_vars", || m.get_nodes_vars(k), |r| expect_vec(&format!("get_nodes_vars({})", k), &r, &data[k]));
                for v in 0..nv { prove_eq(&format!("index [{}][{}]", k, v), m[k][v], data[k][v]); }
                prove_eq(&format!("coord({})", k), m.coord(k), xs[k]);
            }
            must("nodes()", || m.nodes(), |r| expect_vec("nodes()", &r, &xs));
            // one more write at each node changes that node only
            let w = var_vec("w", nv);
            for k in 0..nn {
                let r = catch(|| { let mut m2 = Mesh1D::<Sym, Sym>::new(vv(&xs), nv); for t in 0..nn { m2.set_nodes_vars(t, vv(&data[t])); } m2.set_nodes_vars(k, vv(&w)); m2 });
                match r {
                    Ok(m2) => { for t in 0..nn { must("read back", || m2.get_nodes_vars(t), |r| expect_vec(&format!("after write at {}: node {}", k, t), &r, if t == k { &w } else { &data[t] })); } }
                    Err(st) => must_not_stop("node write", &st),
                }
            }
            control("store1d control", eq(xs[0], xs[0] + Sym::lit(1.0)));
        }
        "store2d" => {
            let (nx, ny, nv) = (geti(&p, "nx"), geti(&p, "ny"), geti(&p, "nv"));
            let (xs, ys) = (var_vec("x", nx), var_vec("y", ny));
            let d = |i: usize, j: usize, v: usize| Sym::var(&format!("d_{}_{}_{}", i, j, v));
            let node = |i: usize, j: usize| -> Vec<Sym> { (0..nv).map(|v| d(i, j, v)).collect() };
            let mut m = Mesh2D::<Sym>::new(vv(&xs), vv(&ys), nv);
            check_that(m.nnodes() == (nx, ny) && m.nvars() == nv, || "nnodes/nvars".into());
            // write every node, y-major order on purpose (the storage is x-major)
            for j in 0..ny { for i in 0..nx {
                if (i + j) % 2 == 0 { if let Err(st) = catch(|| m.set_nodes_vars(i, j, vv(&node(i, j)))) { must_not_stop("set_nodes_vars", &st); } }
                else { for v in 0..nv { m[(i, j)][v] = d(i, j, v); } }
            } }
            for i in 0..nx { for j in 0..ny {
                must("get_nodes_vars", || m.get_nodes_vars(i, j), |r| expect_vec(&format!("get_nodes_vars({},{})", i, j), &r, &node(i, j)));
                for v in 0..nv { prove_eq(&format!("index [({},{})][{}]", i, j, v), m[(i, j)][v], d(i, j, v)); }
                let (cx, cy) = m.coord(i, j);
                prove_eq("coord x", cx, xs[i]); prove_eq("coord y", cy, ys[j]);
            } }
            must("xnodes/ynodes", || (m.xnodes(), m.ynodes()), |(a, b)| { expect_vec("xnodes", &a, &xs); expect_vec("ynodes", &b, &ys); });
            for i in 0..nx { must("cross_section_xnode", || m.cross_section_xnode(i), |s| {
                check_that(s.nnodes() == ny && s.nvars() == nv, || "cross_section_xnode shape".into());
                if s.nnodes() == ny { for j in 0..ny { prove_eq("section coord", s.coord(j), ys[j]); must("section data", || s.get_nodes_vars(j), |r| expect_vec(&format!("cross_section_xnode({}) node {}", i, j), &r, &node(i, j))); } }
            }); }
            for j in 0..ny { must("cross_section_ynode", || m.cross_section_ynode(j), |s| {
                check_that(s.nnodes() == nx && s.nvars() == nv, || "cross_section_ynode shape".into());
                if s.nnodes() == nx { for i in 0..nx { prove_eq("section coord", s.coord(i), xs[i]); must("section data", || s.get_nodes_vars(i), |r| expect_vec(&format!("cross_section_ynode({}) node {}", j, i), &r, &node(i, j))); } }
            }); }
            for v in 0..nv { must("var_as_matrix", || m.var_as_matrix(v), |mm| {
                let ok = mm.rows() == nx && mm.cols() == ny;
                check_that(ok, || "var_as_matrix shape nx x ny".into());
                if ok { for i in 0..nx { for j in 0..ny { prove_eq(&format!("var_as_matrix({})[{},{}]", v, i, j), mm[(i, j)], d(i, j, v)); } } }
            }); }
            // apply: an arbitrary function of the node coordinates (fresh symbol per call, arguments recorded)
            let calls: RefCell<Vec<(Sym, Sym, Sym)>> = RefCell::new(Vec::new());
            let f = |x: Sym, y: Sym| -> Sym { let k = calls.borrow().len(); let out = Sym::var(&format!("f_{}", k)); calls.borrow_mut().push((x, y, out)); out };
            let r = catch(|| { let mut m2 = Mesh2D::<Sym>::new(vv(&xs), vv(&ys), nv); for i in 0..nx { for j in 0..ny { m2.set_nodes_vars(i, j, vv(&node(i, j))); } } m2.apply(&f, nv - 1); m2 });
            match r {
                Ok(m2) => {
                    let calls = calls.borrow();
                    check_that(calls.len() == nx * ny, || "apply evaluates the function once per node".into());
                    for i in 0..nx { for j in 0..ny {
                        let hit: Vec<&(Sym, Sym, Sym)> = calls.iter().filter(|c| c.0.same(xs[i]) && c.1.same(ys[j])).collect();
                        check_that(hit.len() == 1, || format!("apply calls f(x_{}, y_{}) exactly once", i, j));
                        if hit.len() == 1 {
                            for v in 0..nv { prove_eq(&format!("after apply: node ({},{}) var {}", i, j, v), m2[(i, j)][v], if v == nv - 1 { hit[0].2 } else { d(i, j, v) }); }
                        }
                    } }
                }
                Err(st) => must_not_stop("apply", &st),
            }
            let w = Sym::var("w");
            must("assign", || { let mut m2 = Mesh2D::<Sym>::new(vv(&xs), vv(&ys), nv); m2.assign(w); m2 }, |m2| { for i in 0..nx { for j in 0..ny { for v in 0..nv { prove_eq("assign", m2[(i, j)][v], w); } } } });
            // a single write changes one node only
            let (wi, wj) = (nx - 1, 0);
            let wv = var_vec("wv", nv);
            must("one write", || { let mut m2 = Mesh2D::<Sym>::new(vv(&xs), vv(&ys), nv); for i in 0..nx { for j in 0..ny { m2.set_nodes_vars(i, j, vv(&node(i, j))); } } m2.set_nodes_vars(wi, wj, vv(&wv)); m2 }, |m2| {
                for i in 0..nx { for j in 0..ny { must("read back", || m2.get_nodes_vars(i, j), |r| expect_vec(&format!("after write at ({},{}): node ({},{})", wi, wj, i, j), &r, &if (i, j) == (wi, wj) { wv.clone() } else { node(i, j) })); } }
            });
            control("store2d control", eq(w, w + Sym::lit(1.0)));
        }
        "interp_cell" | "interp_node" => {
            let nn = geti(&p, "nn");
            let nv = 2;
            let xs = nodes("x", nn);
            let data = var_grid("d", nn, nv);
            let xp = Sym::var("xp");
            let mut m = Mesh1D::<Sym, Sym>::new(vv(&xs), nv);
            for k in 0..nn { m.set_nodes_vars(k, vv(&data[k])); }
            if kind == "interp_cell" {
                let c = geti(&p, "cell");
                assume(le(xs[c] + Sym::lit(1.0e-6), xp));
                assume(le(xp + Sym::lit(1.0e-6), xs[c + 1]));
                must("get_interpolated_vars", || m.get_interpolated_vars(xp), |r| {
                    check_that(r.size() == nv, || "interpolated vector has nvars entries".into());
                    if r.size() == nv { for v in 0..nv {
                        // r = left + (right-left) * (xp - x_c) / (x_{c+1} - x_c)
                        prove(&format!("interior of cell {}: linear interpolant (var {})", c, v), eq((r[v] - data[c][v]) * (xs[c + 1] - xs[c]), (data[c + 1][v] - data[c][v]) * (xp - xs[c])));
                    } }
                });
            } else {
                let k = geti(&p, "node");
                assume(eq(xp, xs[k]));
                must("get_interpolated_vars", || m.get_interpolated_vars(xp), |r| {
                    check_that(r.size() == nv, || "interpolated vector has nvars entries".into());
                    if r.size() == nv { for v in 0..nv { prove(&format!("at node {}: nodal value (var {})", k, v), eq(r[v], data[k][v])); } }
                });
            }
            control("interp control", eq(xp, xp + Sym::lit(1.0)));
        }
        "fp_interp" => {
            // FP64 clause, on the quantifier's own domain: nodes are multiples of 2^-10 in [-64, 64] at least 1e-3 apart, nodal data
            // are integers up to 1024 in size.  There every nodal value and every mid-cell value of the interpolant is a double, so
            // the result at a node must be that double: identical term, else a QF_FP query (cvc5) whose model is replayed on the doubles.
            // "is an integer" is written with the rounding trick (v + 1.5*2^52) - 1.5*2^52 == v, exact for |v| < 2^51.
            let nn = geti(&p, "nn");
            let nv = 1;
            let xs = nodes("x", nn);
            let data = var_grid("d", nn, nv);
            let big = Sym::lit(6755399441055744.0);
            let is_int = |v: Sym| eq((v + big) - big, v);
            let mut dom: Vec<B> = Vec::new();
            for k in 0..nn {
                dom.push(le(xs[k].abs(), Sym::lit(64.0)));
                dom.push(is_int(xs[k] * Sym::lit(1024.0)));
                if k + 1 < nn { dom.push(le(xs[k] + Sym::lit(1.0e-3), xs[k + 1])); }
                for v in 0..nv { dom.push(le(data[k][v].abs(), Sym::lit(1024.0))); dom.push(is_int(data[k][v])); }
            }
            let mut m = Mesh1D::<Sym, Sym>::new(vv(&xs), nv);
            for k in 0..nn { m.set_nodes_vars(k, vv(&data[k])); }
            let group = "f64 interpolation on a dyadic grid with integer data returns the exact double";
            for k in 0..nn {
                must("get_interpolated_vars at a node", || m.get_interpolated_vars(xs[k]), |r| {
                    if check_that(r.size() == nv, || "interpolated vector has nvars entries".into()) { for v in 0..nv {
                        if r[v].same(data[k][v]) { count_case(); check_that(true, || String::new()); }
                        else { prove_fp(&format!("{} :: at node {} of {} (var {})", group, k, nn, v), &dom, eq(r[v], data[k][v])); }
                    } }
                });
            }
            // (the mid-cell values are doubles too, and the pre-repair formula missed them as well - cvc5 gave models in seconds -
            // but for the repaired formula the bit-level proof that (m - x0)/(x1 - x0) is exactly 1/2 does not finish; not claimed)
            control("fp_interp control", eq(xs[0], xs[0] + Sym::lit(1.0)));
        }
        "quad1d" => {
            let nn = geti(&p, "nn");
            let xs = nodes("x", nn);
            let data = var_vec("d", nn);
            let (al, be) = (Sym::var("alpha"), Sym::var("beta"));
            let mut m = Mesh1D::<Sym, Sym>::new(vv(&xs), 2);
            for k in 0..nn { m.set_nodes_vars(k, vv(&[data[k], al * xs[k] + be])); }
            must("trapezium", || (m.trapezium(0), m.trapezium(1)), |(t0, t1)| {
                let mut acc = z();
                for k in 0..nn - 1 { acc = acc + Sym::lit(0.5) * (xs[k + 1] - xs[k]) * (data[k] + data[k + 1]); }
                prove_eq("trapezium = sum of cell contributions", t0, acc);
                let (a, b) = (xs[0], xs[nn - 1]);
                prove("trapezium is exact for linear data", eq(t1 * Sym::lit(2.0), al * (b * b - a * a) + Sym::lit(2.0) * be * (b - a)));
            });
            control("quad1d control", eq(al, al + Sym::lit(1.0)));
        }
        "quad2d" => {
            let (nx, ny) = (geti(&p, "nx"), geti(&p, "ny"));
            let (xs, ys) = (nodes("x", nx), nodes("y", ny));
            let c = var_vec("c", 4);
            let mut m = Mesh2D::<Sym>::new(vv(&xs), vv(&ys), 2);
            let d = |i: usize, j: usize| Sym::var(&format!("d_{}_{}", i, j));
            for i in 0..nx { for j in 0..ny { m.set_nodes_vars(i, j, vv(&[d(i, j), c[0] + c[1] * xs[i] + c[2] * ys[j] + c[3] * xs[i] * ys[j]])); } }
            must("trapezium 2d", || (m.trapezium(0), m.trapezium(1), m.square_trapezium(0)), |(t0, t1, s0)| {
                let mut acc = z();
                let mut acc2 = z();
                for i in 0..nx - 1 { for j in 0..ny - 1 {
                    let w = Sym::lit(0.25) * (xs[i + 1] - xs[i]) * (ys[j + 1] - ys[j]);
                    acc = acc + w * (d(i, j) + d(i + 1, j) + d(i, j + 1) + d(i + 1, j + 1));
                    acc2 = acc2 + w * (d(i, j) * d(i, j) + d(i + 1, j) * d(i + 1, j) + d(i, j + 1) * d(i, j + 1) + d(i + 1, j + 1) * d(i + 1, j + 1));
                } }
                prove_eq("2-D trapezium = sum of cell contributions", t0, acc);
                prove_eq("square_trapezium = trapezium of the squares", s0, acc2);
                let (a, b, cc, dd) = (xs[0], xs[nx - 1], ys[0], ys[ny - 1]);
                let half = Sym::lit(0.5);
                let exact = c[0] * (b - a) * (dd - cc) + c[1] * half * (b * b - a * a) * (dd - cc) + c[2] * half * (dd * dd - cc * cc) * (b - a) + c[3] * half * half * (b * b - a * a) * (dd * dd - cc * cc);
                prove("2-D trapezium is exact for bilinear data", eq(t1, exact));
            });
            control("quad2d control", eq(c[0], c[0] + Sym::lit(1.0)));
        }
        _ => panic!("unknown C19 instance"),
    }
}
