//! C20 - mismatched shapes rejected; operands never mutated; clones independent.
//! Engine S part: every mismatched shape pair up to 6 is enumerated, values are symbols.
use super::*;
use crate::util::*;
use ohsl::{Banded, Matrix, Polynomial, Tridiagonal, Vector};
use symcore::*;

pub fn instances(_tier: &str) -> Vec<String> {
    vec!["vector".into(), "matrix".into(), "matrix_solve".into(), "banded".into(), "tridiagonal".into(), "sparse".into(), "mesh".into(), "polynomial".into(), "intact".into(), "clones".into()]
}

const N: usize = 6;
fn z() -> Sym { Sym::lit(0.0) }
fn vecn(p: &str, n: usize) -> Vector<Sym> { Vector::create(var_vec(p, n)) }
fn matn(p: &str, r: usize, c: usize) -> Matrix<Sym> { Model::vars(p, r, c).matrix() }

/// the call must panic (reject); returning a value - or dividing by zero first - is a violation
fn rejects<R>(label: impl Fn() -> String, f: impl FnOnce() -> R) {
    count_case();
    match catch(f) {
        Err(Stop::Panic { .. }) => { check_that(true, || String::new()); }
        Ok(_) => { check_that(false, || format!("{}: returned a value instead of rejecting", label())); }
        Err(s) => { check_that(false, || format!("{}: expected a rejection, got {}", label(), stop_text(&s))); }
    }
}

fn band(n: usize, m1: usize, m2: usize, p: &str) -> Banded<Sym> {
    let mut b = Banded::<Sym>::new(n, m1, m2, z());
    for i in 0..n { for j in 0..n { if j <= i + m2 && i <= j + m1 { b[(i, j)] = Sym::var(&format!("{}_{}_{}", p, i, j)); } } }
    b
}
fn tri(n: usize, p: &str) -> Tridiagonal<Sym> { Tridiagonal::with_vecs(var_vec(&format!("{}l", p), n - 1), var_vec(&format!("{}d", p), n), var_vec(&format!("{}u", p), n - 1)) }

pub fn body(inst: &str) {
    match inst {
        "vector" => {
            for n1 in 0..=N { for n2 in 0..=N { if n1 != n2 {
                let l = |op: &str| format!("Vector {} with sizes {} and {}", op, n1, n2);
                rejects(|| l("&v + &w"), || &vecn("a", n1) + &vecn("b", n2));
                rejects(|| l("v + &w"), || vecn("a", n1) + &vecn("b", n2));
                rejects(|| l("v + w"), || vecn("a", n1) + vecn("b", n2));
                rejects(|| l("&v - &w"), || &vecn("a", n1) - &vecn("b", n2));
                rejects(|| l("v - &w"), || vecn("a", n1) - &vecn("b", n2));
                rejects(|| l("v - w"), || vecn("a", n1) - vecn("b", n2));
                rejects(|| l("v += w"), || { let mut t = vecn("a", n1); t += vecn("b", n2); t });
                rejects(|| l("v -= w"), || { let mut t = vecn("a", n1); t -= vecn("b", n2); t });
                rejects(|| l("dot"), || vecn("a", n1).dot(&vecn("b", n2)));
                { use ohsl_sym::Vector as V2; rejects(|| l("dot_f64"), || V2::create(var_vec("a", n1)).dot_f64(&V2::create(var_vec("b", n2)))); }
            } } }
            for n in 0..=N {
                for i in n..=n + 2 {
                    rejects(|| format!("Vector index {} of {}", i, n), || vecn("a", n)[i]);
                    rejects(|| format!("Vector index_mut {} of {}", i, n), || { let mut t = vecn("a", n); t[i] = z(); t });
                    rejects(|| format!("Vector swap({}, 0) of {}", i, n), || { let mut t = vecn("a", n); t.swap(i, 0); t });
                    rejects(|| format!("Vector insert({}) of {}", i + 1, n), || { let mut t = vecn("a", n); t.insert(i + 1, z()); t });
                    rejects(|| format!("sum_slice(0,{}) of {}", i, n), || vecn("a", n).sum_slice(0, i));
                    rejects(|| format!("product_slice(0,{}) of {}", i, n), || vecn("a", n).product_slice(0, i));
                    rejects(|| format!("sum_slice({},{}) of {}", i, i, n), || vecn("a", n).sum_slice(i, i));
                }
                for st in 1..n { rejects(|| format!("sum_slice({},{}) start > end", st, st - 1), || vecn("a", n).sum_slice(st, st - 1)); rejects(|| format!("product_slice({},{}) start > end", st, st - 1), || vecn("a", n).product_slice(st, st - 1)); }
            }
            rejects(|| "pop on the empty vector".into(), || { let mut t = vecn("a", 0); t.pop() });
        }
        "matrix" => {
            let shapes: Vec<(usize, usize)> = (0..=4).flat_map(|r| (0..=4).map(move |c| (r, c))).chain([(5, 5), (6, 6), (5, 6), (6, 5), (1, 6), (6, 1)]).collect();
            for &(r1, c1) in &shapes { for &(r2, c2) in &shapes { if (r1, c1) != (r2, c2) {
                let l = |op: &str| format!("Matrix {} with shapes {}x{} and {}x{}", op, r1, c1, r2, c2);
                rejects(|| l("&A + &B"), || &matn("a", r1, c1) + &matn("b", r2, c2));
                rejects(|| l("A + B"), || matn("a", r1, c1) + matn("b", r2, c2));
                rejects(|| l("&A - &B"), || &matn("a", r1, c1) - &matn("b", r2, c2));
                rejects(|| l("A - B"), || matn("a", r1, c1) - matn("b", r2, c2));
                rejects(|| l("A += &B"), || { let mut t = matn("a", r1, c1); t += &matn("b", r2, c2); t });
                rejects(|| l("A += B"), || { let mut t = matn("a", r1, c1); t += matn("b", r2, c2); t });
                rejects(|| l("A -= &B"), || { let mut t = matn("a", r1, c1); t -= &matn("b", r2, c2); t });
                rejects(|| l("A -= B"), || { let mut t = matn("a", r1, c1); t -= matn("b", r2, c2); t });
            }
            if c1 != r2 {
                rejects(|| format!("Matrix &A * &B with {}x{} times {}x{}", r1, c1, r2, c2), || &matn("a", r1, c1) * &matn("b", r2, c2));
                rejects(|| format!("Matrix A * B with {}x{} times {}x{}", r1, c1, r2, c2), || matn("a", r1, c1) * matn("b", r2, c2));
            } } }
            for &(r, c) in &shapes {
                for n in 0..=N {
                    if n != c { rejects(|| format!("multiply: {}x{} times vector of {}", r, c, n), || matn("a", r, c).multiply(&vecn("x", n))); rejects(|| format!("&A * &x: {}x{} times vector of {}", r, c, n), || &matn("a", r, c) * &vecn("x", n)); rejects(|| format!("A * x: {}x{} times vector of {}", r, c, n), || matn("a", r, c) * vecn("x", n)); }
                    if n != c && r > 0 { rejects(|| format!("set_row(0) on {}x{} with vector of {}", r, c, n), || { let mut t = matn("a", r, c); t.set_row(0, vecn("x", n)); t }); }
                    if n != r && c > 0 { rejects(|| format!("set_col(0) on {}x{} with vector of {}", r, c, n), || { let mut t = matn("a", r, c); t.set_col(0, vecn("x", n)); t }); }
                }
                for i in r..=r + 2 {
                    rejects(|| format!("get_row({}) on {}x{}", i, r, c), || matn("a", r, c).get_row(i));
                    rejects(|| format!("set_row({}) on {}x{}", i, r, c), || { let mut t = matn("a", r, c); t.set_row(i, vecn("x", c)); t });
                    rejects(|| format!("delete_row({}) on {}x{}", i, r, c), || { let mut t = matn("a", r, c); t.delete_row(i); t });
                    rejects(|| format!("fill_row({}) on {}x{}", i, r, c), || { let mut t = matn("a", r, c); t.fill_row(i, z()); t });
                    rejects(|| format!("swap_rows({},0) on {}x{}", i, r, c), || { let mut t = matn("a", r, c); t.swap_rows(i, 0); t });
                    rejects(|| format!("swap_rows(0,{}) on {}x{}", i, r, c), || { let mut t = matn("a", r, c); t.swap_rows(0, i); t });
                }
                for j in c..=c + 2 {
                    rejects(|| format!("get_col({}) on {}x{}", j, r, c), || matn("a", r, c).get_col(j));
                    rejects(|| format!("set_col({}) on {}x{}", j, r, c), || { let mut t = matn("a", r, c); t.set_col(j, vecn("x", r)); t });
                    rejects(|| format!("fill_col({}) on {}x{}", j, r, c), || { let mut t = matn("a", r, c); t.fill_col(j, z()); t });
                }
            }
        }
        "matrix_solve" => {
            for r in 0..=4usize { for c in 0..=4usize {
                if r != c {
                    for n in [r, c] {
                        rejects(|| format!("solve_basic on non-square {}x{}", r, c), || matn("a", r, c).solve_basic(&vecn("b", n)));
                        rejects(|| format!("solve_lu on non-square {}x{}", r, c), || matn("a", r, c).solve_lu(&vecn("b", n)));
                    }
                    rejects(|| format!("lu_decomp_in_place on non-square {}x{}", r, c), || { let mut t = matn("a", r, c); t.lu_decomp_in_place() });
                    rejects(|| format!("inverse of non-square {}x{}", r, c), || matn("a", r, c).inverse());
                    rejects(|| format!("determinant of non-square {}x{}", r, c), || matn("a", r, c).determinant());
                } else {
                    for n in 0..=N { if n != r {
                        rejects(|| format!("solve_basic {}x{} with rhs of {}", r, c, n), || matn("a", r, c).solve_basic(&vecn("b", n)));
                        rejects(|| format!("solve_lu {}x{} with rhs of {}", r, c, n), || matn("a", r, c).solve_lu(&vecn("b", n)));
                    } }
                }
            } }
        }
        "banded" => {
            let shapes: Vec<(usize, usize, usize)> = (1..=4usize).flat_map(|n| (0..n).flat_map(move |m1| (0..n).map(move |m2| (n, m1, m2)))).collect();
            for &(n, m1, m2) in &shapes {
                for &(k, l1, l2) in &shapes { if (n, m1, m2) != (k, l1, l2) {
                    let l = |op: &str| format!("Banded {} with (n,m1,m2) = ({},{},{}) and ({},{},{})", op, n, m1, m2, k, l1, l2);
                    rejects(|| l("&A + &B"), || &band(n, m1, m2, "a") + &band(k, l1, l2, "b"));
                    rejects(|| l("A + B"), || band(n, m1, m2, "a") + band(k, l1, l2, "b"));
                    rejects(|| l("&A - &B"), || &band(n, m1, m2, "a") - &band(k, l1, l2, "b"));
                    rejects(|| l("A - B"), || band(n, m1, m2, "a") - band(k, l1, l2, "b"));
                    rejects(|| l("A += &B"), || { let mut t = band(n, m1, m2, "a"); t += &band(k, l1, l2, "b"); t });
                    rejects(|| l("A += B"), || { let mut t = band(n, m1, m2, "a"); t += band(k, l1, l2, "b"); t });
                    rejects(|| l("A -= &B"), || { let mut t = band(n, m1, m2, "a"); t -= &band(k, l1, l2, "b"); t });
                    rejects(|| l("A -= B"), || { let mut t = band(n, m1, m2, "a"); t -= band(k, l1, l2, "b"); t });
                } }
                for s in 0..=N { if s != n {
                    rejects(|| format!("&Banded * &x: n = {} with vector of {}", n, s), || &band(n, m1, m2, "a") * &vecn("x", s));
                    rejects(|| format!("Banded * x: n = {} with vector of {}", n, s), || band(n, m1, m2, "a") * vecn("x", s));
                    rejects(|| format!("Banded::solve: n = {} with rhs of {}", n, s), || band(n, m1, m2, "a").solve(&vecn("b", s)));
                } }
                // outside the band (inside the matrix) the index operator refuses
                for i in 0..n { for j in 0..n { if j > i + m2 || i > j + m1 {
                    rejects(|| format!("Banded index ({},{}) outside the band of ({},{},{})", i, j, n, m1, m2), || band(n, m1, m2, "a")[(i, j)]);
                    rejects(|| format!("Banded index_mut ({},{}) outside the band of ({},{},{})", i, j, n, m1, m2), || { let mut t = band(n, m1, m2, "a"); t[(i, j)] = z(); t });
                } } }
                for b in [-(m1 as isize) - 1, m2 as isize + 1, -(m1 as isize) - 3, m2 as isize + 3] {
                    rejects(|| format!("fill_band({}) on ({},{},{})", b, n, m1, m2), || { let mut t = band(n, m1, m2, "a"); t.fill_band(b, z()); t });
                }
            }
        }
        "tridiagonal" => {
            for n in 1..=N {
                for k in 1..=N { if k != n {
                    rejects(|| format!("Tridiagonal + with sizes {} and {}", n, k), || tri(n, "a") + tri(k, "b"));
                    rejects(|| format!("Tridiagonal - with sizes {} and {}", n, k), || tri(n, "a") - tri(k, "b"));
                } }
                for s in 0..=N { if s != n {
                    rejects(|| format!("&Tridiagonal * &x: n = {} with vector of {}", n, s), || &tri(n, "a") * &vecn("x", s));
                    rejects(|| format!("Tridiagonal * x: n = {} with vector of {}", n, s), || tri(n, "a") * vecn("x", s));
                    rejects(|| format!("Tridiagonal::solve: n = {} with rhs of {}", n, s), || tri(n, "a").solve(&vecn("b", s)));
                } }
                for a in 0..=N { for c in 0..=N { if a != n - 1 || c != n - 1 {
                    rejects(|| format!("with_vecs({}, {}, {})", a, n, c), || Tridiagonal::with_vecs(var_vec("l", a), var_vec("d", n), var_vec("u", c)));
                    rejects(|| format!("with_vectors({}, {}, {})", a, n, c), || Tridiagonal::with_vectors(vecn("l", a), vecn("d", n), vecn("u", c)));
                } } }
                for i in 0..n + 2 { for j in 0..n + 2 { if i >= n || j >= n || !(i == j || i == j + 1 || i + 1 == j) {
                    rejects(|| format!("Tridiagonal index ({},{}) of n = {}", i, j, n), || tri(n, "a")[(i, j)]);
                    rejects(|| format!("Tridiagonal index_mut ({},{}) of n = {}", i, j, n), || { let mut t = tri(n, "a"); t[(i, j)] = z(); t });
                } } }
            }
        }
        "sparse" => {
            use ohsl_sym::{Sparse, Vector as V2};
            let mk = |r: usize, c: usize| { let mut t: Vec<(usize, usize, Sym)> = (0..r.min(c)).map(|i| (i, i, Sym::var(&format!("s_{}", i)))).collect(); Sparse::from_triplets(r, c, &mut t) };
            let v2 = |p: &str, n: usize| V2::create(var_vec(p, n));
            for r in 0..=4usize { for c in 0..=4usize {
                for n in 0..=N {
                    if n != c { rejects(|| format!("Sparse multiply: {}x{} with vector of {}", r, c, n), || mk(r, c).multiply(&v2("x", n))); }
                    if n != r { rejects(|| format!("Sparse transpose_multiply: {}x{} with vector of {}", r, c, n), || mk(r, c).transpose_multiply(&v2("x", n))); }
                }
                for (i, j) in [(r, 0), (0, c), (r, c), (r + 1, 0), (0, c + 2)] {
                    rejects(|| format!("Sparse get({},{}) on {}x{}", i, j, r, c), || mk(r, c).get(i, j));
                    rejects(|| format!("Sparse insert({},{}) on {}x{}", i, j, r, c), || { let mut t = mk(r, c); t.insert(i, j, z()); t });
                    rejects(|| format!("Sparse from_triplets with entry ({},{}) in {}x{}", i, j, r, c), || { let mut t = vec![(i, j, z())]; Sparse::from_triplets(r, c, &mut t) });
                }
                // the four solver entry points: non-square, wrong rhs, wrong x
                let tol = Sym::lit(1.0e-8);
                for nb in 0..=4usize { for nx in 0..=4usize { if r != c || nb != r || nx != nb {
                    let l = |s: &str| format!("{} on {}x{} with b of {} and x of {}", s, r, c, nb, nx);
                    rejects(|| l("solve_cg"), || { let mut x = v2("x", nx); mk(r, c).solve_cg(&v2("b", nb), &mut x, 3, tol) });
                    rejects(|| l("solve_bicg"), || { let mut x = v2("x", nx); mk(r, c).solve_bicg(&v2("b", nb), &mut x, 3, tol, 1) });
                    rejects(|| l("solve_bicgstab"), || { let mut x = v2("x", nx); mk(r, c).solve_bicgstab(&v2("b", nb), &mut x, 3, tol) });
                    rejects(|| l("solve_qmr"), || { let mut x = v2("x", nx); mk(r, c).solve_qmr(&v2("b", nb), &mut x, 3, tol) });
                } } }
            } }
            rejects(|| "solve_bicg with itol = 3".into(), || { let mut x = v2("x", 2); mk(2, 2).solve_bicg(&v2("b", 2), &mut x, 3, Sym::lit(1.0e-8), 3) });
        }
        "mesh" => {
            use ohsl_sym::{Mesh1D, Mesh2D, Vector as V2};
            let v2 = |p: &str, n: usize| V2::create(var_vec(p, n));
            for nn in 1..=4usize { for nv in 1..=3usize {
                let mk = || Mesh1D::<Sym, Sym>::new(v2("x", nn), nv);
                for k in nn..=nn + 2 { rejects(|| format!("Mesh1D set_nodes_vars({}) of {} nodes", k, nn), || { let mut m = mk(); m.set_nodes_vars(k, v2("d", nv)); m }); rejects(|| format!("Mesh1D get_nodes_vars({}) of {} nodes", k, nn), || mk().get_nodes_vars(k)); }
                for s in 0..=N { if s != nv { rejects(|| format!("Mesh1D set_nodes_vars with {} values for {} variables", s, nv), || { let mut m = mk(); m.set_nodes_vars(0, v2("d", s)); m }); } }
            } }
            for nx in 1..=3usize { for ny in 1..=3usize { for nv in 1..=2usize {
                let mk = || Mesh2D::<Sym>::new(v2("x", nx), v2("y", ny), nv);
                for (i, j) in [(nx, 0), (0, ny), (nx, ny), (nx + 1, 0), (0, ny + 1)] {
                    rejects(|| format!("Mesh2D set_nodes_vars({},{}) on {}x{}", i, j, nx, ny), || { let mut m = mk(); m.set_nodes_vars(i, j, v2("d", nv)); m });
                    rejects(|| format!("Mesh2D get_nodes_vars({},{}) on {}x{}", i, j, nx, ny), || mk().get_nodes_vars(i, j));
                }
                for s in 0..=N { if s != nv { rejects(|| format!("Mesh2D set_nodes_vars with {} values for {} variables", s, nv), || { let mut m = mk(); m.set_nodes_vars(0, 0, v2("d", s)); m }); } }
                for v in nv..=nv + 2 { rejects(|| format!("Mesh2D var_as_matrix({}) with {} variables", v, nv), || mk().var_as_matrix(v)); }
                rejects(|| format!("Mesh2D cross_section_xnode({}) on {}x{}", nx, nx, ny), || mk().cross_section_xnode(nx));
                rejects(|| format!("Mesh2D cross_section_ynode({}) on {}x{}", ny, nx, ny), || mk().cross_section_ynode(ny));
            } } }
        }
        "polynomial" => {
            for n in 0..=N { for i in n..=n + 2 {
                rejects(|| format!("Polynomial index {} of {} coefficients", i, n), || Polynomial::new(var_vec("a", n))[i]);
                rejects(|| format!("Polynomial index_mut {} of {} coefficients", i, n), || { let mut p = Polynomial::new(var_vec("a", n)); p[i] = z(); p });
            } }
        }
        "intact" => {
            // by-reference operators and &self methods leave their operands bit-for-bit unchanged;
            // owned and borrowed forms return identical results
            for (r, c) in [(2usize, 3usize), (3, 3), (1, 4)] {
                let (ma, mb) = (Model::vars("a", r, c), Model::vars("b", r, c));
                let (a, b) = (ma.matrix(), mb.matrix());
                let s = Sym::var("s");
                let r1 = &a + &b; let r2 = &a - &b; let r3 = -&a; let r4 = &a * s; let r5 = a.transpose(); let _ = a.get_row(0); let _ = a.get_col(0); let _ = a.multiply(&vecn("x", c));
                ma.expect("operand a after by-reference matrix operators", &a);
                mb.expect("operand b after by-reference matrix operators", &b);
                let same = |x: &Matrix<Sym>, y: &Matrix<Sym>| x.rows() == y.rows() && x.cols() == y.cols() && (0..x.rows()).all(|i| (0..x.cols()).all(|j| x[(i, j)].same(y[(i, j)])));
                check_that(same(&r1, &(a.clone() + b.clone())), || "&A + &B differs from A + B".into());
                check_that(same(&r2, &(a.clone() - b.clone())), || "&A - &B differs from A - B".into());
                check_that(same(&r3, &(-a.clone())), || "-&A differs from -A".into());
                check_that(same(&r4, &(a.clone() * s)), || "&A * s differs from A * s".into());
                check_that(same(&r5.transpose(), &a), || "transpose twice differs".into());
                if r == c {
                    let (bt, bv) = (matn("t", r, c), vecn("v", r));
                    check_that(same(&(&a * &bt), &(a.clone() * bt.clone())), || "&A * &B differs from A * B".into());
                    let (p1, p2) = (&a * &bv, a.clone() * bv.clone());
                    check_that(p1.size() == p2.size() && (0..p1.size()).all(|i| p1[i].same(p2[i])), || "&A * &x differs from A * x".into());
                    // (determinant / inverse / solvers leave the operand intact: decided on every pivot path in C02, C04, C05, C12)
                }
            }
            for n in [0usize, 1, 4] {
                let (xa, xb) = (var_vec("a", n), var_vec("b", n));
                let (a, b) = (Vector::create(xa.clone()), Vector::create(xb.clone()));
                let (r1, r2, _d, _n1, _ab) = (&a + &b, &a - &b, a.dot(&b), a.norm_1(), a.abs());
                expect_vec("vector operand a after by-reference operators", &a, &xa);
                expect_vec("vector operand b after by-reference operators", &b, &xb);
                let o1 = a.clone() + b.clone(); let o2 = a.clone() - &b;
                check_that((0..n).all(|i| r1[i].same(o1[i]) && r2[i].same(o2[i])), || "borrowed and owned vector operators differ".into());
            }
            {
                let (a, b) = (band(4, 1, 2, "a"), band(4, 1, 2, "b"));
                let snap: Vec<Sym> = (0..4).flat_map(|i| (0..4).filter(move |j| *j <= i + 2 && i <= *j + 1).map(move |j| (i, j))).map(|(i, j)| a[(i, j)]).collect();
                let (r1, r2, r3) = (&a + &b, &a - &b, -&a);
                let x = vecn("x", 4);
                let p1 = &a * &x;
                let after: Vec<Sym> = (0..4).flat_map(|i| (0..4).filter(move |j| *j <= i + 2 && i <= *j + 1).map(move |j| (i, j))).map(|(i, j)| a[(i, j)]).collect();
                check_that(snap.len() == after.len() && snap.iter().zip(after.iter()).all(|(p, q)| p.same(*q)), || "banded operand changed by by-reference operators".into());
                let o1 = a.clone() + b.clone(); let o2 = a.clone() - b.clone(); let o3 = -a.clone(); let p2 = a.clone() * x.clone();
                let eqb = |u: &Banded<Sym>, v: &Banded<Sym>| (0..4).all(|i| (0..4).all(|j| !(j <= i + 2 && i <= j + 1) || u[(i, j)].same(v[(i, j)])));
                check_that(eqb(&r1, &o1) && eqb(&r2, &o2) && eqb(&r3, &o3), || "borrowed and owned banded operators differ".into());
                check_that((0..4).all(|i| p1[i].same(p2[i])), || "&Banded * &x differs from Banded * x".into());
            }
            {
                let t = tri(4, "t");
                let x = vecn("x", 4);
                let (p1, _c, _d, _tr) = (&t * &x, t.convert(), t.det(), t.transpose());
                let t0 = tri(4, "t");
                check_that((0..4).all(|i| (0..4).all(|j| !(i == j || i == j + 1 || i + 1 == j) || t[(i, j)].same(t0[(i, j)]))), || "tridiagonal operand changed by &self methods".into());
                let p2 = t.clone() * x.clone();
                check_that((0..4).all(|i| p1[i].same(p2[i])), || "&T * &x differs from T * x".into());
            }
            {
                let (pa, pb) = (var_vec("p", 3), var_vec("q", 2));
                let (p, q) = (Polynomial::new(pa.clone()), Polynomial::new(pb.clone()));
                let (r1, r2, r3, r4) = (&p + &q, &p - &q, &p * &q, -&p);
                let _ = p.derivative(); let _ = p.eval(Sym::var("x"));
                check_that(p.size() == 3 && q.size() == 2 && (0..3).all(|k| p[k].same(pa[k])) && (0..2).all(|k| q[k].same(pb[k])), || "polynomial operands changed by by-reference operators".into());
                let (o1, o2, o3, o4) = (p.clone() + q.clone(), p.clone() - q.clone(), p.clone() * q.clone(), -p.clone());
                let eqp = |u: &Polynomial<Sym>, v: &Polynomial<Sym>| u.size() == v.size() && (0..u.size()).all(|k| u[k].same(v[k]));
                check_that(eqp(&r1, &o1) && eqp(&r2, &o2) && eqp(&r3, &o3) && eqp(&r4, &o4), || "borrowed and owned polynomial operators differ".into());
            }
        }
        "clones" => {
            let w = Sym::var("w");
            // value vs clone: mutate either one with each editing operation, the other is unchanged
            let ma = Model::vars("a", 3, 3);
            let edits: Vec<(&str, Box<dyn Fn(&mut Matrix<Sym>)>)> = vec![
                ("fill", Box::new(move |m| m.fill(w))), ("set_row", Box::new(move |m| m.set_row(1, Vector::new(3, w)))), ("set_col", Box::new(move |m| m.set_col(2, Vector::new(3, w)))),
                ("swap_rows", Box::new(|m| m.swap_rows(0, 2))), ("delete_row", Box::new(|m| m.delete_row(1))), ("resize", Box::new(|m| m.resize(2, 5))), ("transpose_in_place", Box::new(|m| m.transpose_in_place())),
                ("index_mut", Box::new(move |m| m[(2, 1)] = w)), ("*=", Box::new(move |m| *m *= w)), ("+=", Box::new(move |m| *m += w)), ("clear", Box::new(|m| m.clear())), ("fill_band", Box::new(move |m| m.fill_band(1, w))),
            ];
            for (name, e) in &edits {
                let orig = ma.matrix(); let mut cl = orig.clone(); e(&mut cl); ma.expect(&format!("Matrix original after {} on its clone", name), &orig);
                let mut orig = ma.matrix(); let cl = orig.clone(); e(&mut orig); ma.expect(&format!("Matrix clone after {} on the original", name), &cl);
            }
            let xa = var_vec("v", 4);
            let vedits: Vec<(&str, Box<dyn Fn(&mut Vector<Sym>)>)> = vec![
                ("push", Box::new(move |v| v.push(w))), ("push_front", Box::new(move |v| v.push_front(w))), ("insert", Box::new(move |v| v.insert(2, w))), ("pop", Box::new(|v| { v.pop(); })), ("swap", Box::new(|v| v.swap(0, 3))),
                ("resize", Box::new(|v| v.resize(2))), ("assign", Box::new(move |v| v.assign(w))), ("clear", Box::new(|v| v.clear())), ("index_mut", Box::new(move |v| v[1] = w)), ("*=", Box::new(move |v| *v *= w)),
            ];
            for (name, e) in &vedits {
                let orig = Vector::create(xa.clone()); let mut cl = orig.clone(); e(&mut cl); expect_vec(&format!("Vector original after {} on its clone", name), &orig, &xa);
                let mut orig = Vector::create(xa.clone()); let cl = orig.clone(); e(&mut orig); expect_vec(&format!("Vector clone after {} on the original", name), &cl, &xa);
            }
            {
                let b0 = band(4, 1, 1, "b");
                let mut cl = b0.clone(); cl.fill(w); cl[(0, 0)] = w; cl *= w;
                let b1 = band(4, 1, 1, "b");
                check_that((0..4).all(|i| (0..4).all(|j| !(j <= i + 1 && i <= j + 1) || b0[(i, j)].same(b1[(i, j)]))), || "Banded original changed by mutating its clone".into());
                let mut o = band(4, 1, 1, "b"); let c2 = o.clone(); o.fill_band(0, w); o += w;
                check_that((0..4).all(|i| (0..4).all(|j| !(j <= i + 1 && i <= j + 1) || c2[(i, j)].same(b1[(i, j)]))), || "Banded clone changed by mutating the original".into());
            }
            {
                let t0 = tri(4, "t");
                let mut cl = t0.clone(); cl[(1, 1)] = w; cl *= w; cl.transpose_in_place();
                let t1 = tri(4, "t");
                let same = |u: &Tridiagonal<Sym>, v: &Tridiagonal<Sym>| (0..4).all(|i| (0..4).all(|j| !(i == j || i == j + 1 || i + 1 == j) || u[(i, j)].same(v[(i, j)])));
                check_that(same(&t0, &t1), || "Tridiagonal original changed by mutating its clone".into());
                let mut o = tri(4, "t"); let c2 = o.clone(); o[(0, 1)] = w; o += w; o.resize(4);
                check_that(same(&c2, &t1), || "Tridiagonal clone changed by mutating the original".into());
            }
            {
                let pa = var_vec("p", 3);
                let p0 = Polynomial::new(pa.clone());
                let mut cl = p0.clone(); cl[0] = w; cl.coeffs().push(w);
                check_that(p0.size() == 3 && (0..3).all(|k| p0[k].same(pa[k])), || "Polynomial original changed by mutating its clone".into());
                let mut o = Polynomial::new(pa.clone()); let c2 = o.clone(); o[2] = w; o.coeffs().clear();
                check_that(c2.size() == 3 && (0..3).all(|k| c2[k].same(pa[k])), || "Polynomial clone changed by mutating the original".into());
            }
        }
        _ => panic!("unknown C20 instance"),
    }
}
