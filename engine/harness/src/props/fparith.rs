//! "One rounding" clause shared by C03 / C04 / C05 / C15: every element-wise arithmetic operation of a container is the
//! single IEEE operation on the corresponding entries.  Two results that are equal over the reals but rounded differently
//! (x * (1/s) for x / s, (a + b) - 2b for a - b ...) differ in f64, and a structured matrix then stops agreeing with its dense
//! twin.  Decided per entry: identical DAG with simplification off (modulo commutativity of + and *), else bit-identity for all
//! finite doubles as a QF_FP query (cvc5); a model is replayed on the doubles themselves.
use super::*;
use crate::util::*;
use ohsl_sym::{Banded, Matrix, Tridiagonal, Vector};
use symcore::*;

fn one_rounding(group: &str, what: &str, got: Sym, want: Sym) {
    if got.same(want) { count_case(); check_that(true, || String::new()); return; }
    prove_fp(&format!("{} :: {}", group, what), &[], B::or(vec![eq(got, want), B::and(vec![ne(got, got), ne(want, want)])]));
}

type F2<'a> = dyn Fn(Sym, Sym) -> Sym + 'a;

pub fn body(kind: &str, p: &std::collections::BTreeMap<String, String>) {
    let s = Sym::var("s");
    assume(ne(s, Sym::lit(0.0))); // divisions by the scalar
    match kind {
        "vector" => {
            let n = geti(p, "n");
            let (a, b) = (var_vec("a", n), var_vec("b", n));
            let (va, vb) = (Vector::create(a.clone()), Vector::create(b.clone()));
            let g = "Vector: element-wise arithmetic is one IEEE operation per entry";
            let chk = |name: &str, r: &Vector<Sym>, f: &F2<'_>| { if check_that(r.size() == n, || format!("{}: length", name)) { for i in 0..n { one_rounding(g, &format!("{} entry {}", name, i), r[i], f(a[i], b[i])); } } };
            must("a + b", || va.clone() + vb.clone(), |r| chk("a + b", &r, &|x, y| x + y));
            must("&a + &b", || &va + &vb, |r| chk("&a + &b", &r, &|x, y| x + y));
            must("a + &b", || va.clone() + &vb, |r| chk("a + &b", &r, &|x, y| x + y));
            must("a - b", || va.clone() - vb.clone(), |r| chk("a - b", &r, &|x, y| x - y));
            must("&a - &b", || &va - &vb, |r| chk("&a - &b", &r, &|x, y| x - y));
            must("a - &b", || va.clone() - &vb, |r| chk("a - &b", &r, &|x, y| x - y));
            must("-a", || -va.clone(), |r| chk("-a", &r, &|x, _| -x));
            must("a * s", || va.clone() * s, |r| chk("a * s", &r, &|x, _| x * s));
            must("s * a", || s * va.clone(), |r| chk("s * a", &r, &|x, _| s * x));
            must("a / s", || va.clone() / s, |r| chk("a / s", &r, &|x, _| x / s));
            must("a += b", || { let mut t = va.clone(); t += vb.clone(); t }, |r| chk("a += b", &r, &|x, y| x + y));
            must("a -= b", || { let mut t = va.clone(); t -= vb.clone(); t }, |r| chk("a -= b", &r, &|x, y| x - y));
            must("a += s", || { let mut t = va.clone(); t += s; t }, |r| chk("a += s", &r, &|x, _| x + s));
            must("a -= s", || { let mut t = va.clone(); t -= s; t }, |r| chk("a -= s", &r, &|x, _| x - s));
            must("a *= s", || { let mut t = va.clone(); t *= s; t }, |r| chk("a *= s", &r, &|x, _| x * s));
            must("a /= s", || { let mut t = va.clone(); t /= s; t }, |r| chk("a /= s", &r, &|x, _| x / s));
        }
        "matrix" => {
            let (rr, cc) = (geti(p, "r"), geti(p, "c"));
            let mk = |q: &str| { let mut m = Matrix::<Sym>::new(rr, cc, Sym::lit(0.0)); let mut e = vec![vec![Sym::lit(0.0); cc]; rr]; for i in 0..rr { for j in 0..cc { let v = Sym::var(&format!("{}_{}_{}", q, i, j)); m[(i, j)] = v; e[i][j] = v; } } (m, e) };
            let ((ma, a), (mb, b)) = (mk("a"), mk("b"));
            let g = "Matrix: element-wise arithmetic is one IEEE operation per entry";
            let chk = |name: &str, r: &Matrix<Sym>, f: &F2<'_>| { if check_that(r.rows() == rr && r.cols() == cc, || format!("{}: shape", name)) { for i in 0..rr { for j in 0..cc { one_rounding(g, &format!("{} entry ({},{})", name, i, j), r[(i, j)], f(a[i][j], b[i][j])); } } } };
            must("a + b", || ma.clone() + mb.clone(), |r| chk("a + b", &r, &|x, y| x + y));
            must("&a + &b", || &ma + &mb, |r| chk("&a + &b", &r, &|x, y| x + y));
            must("a - b", || ma.clone() - mb.clone(), |r| chk("a - b", &r, &|x, y| x - y));
            must("&a - &b", || &ma - &mb, |r| chk("&a - &b", &r, &|x, y| x - y));
            must("-a", || -ma.clone(), |r| chk("-a", &r, &|x, _| -x));
            must("-&a", || -&ma, |r| chk("-&a", &r, &|x, _| -x));
            must("a * s", || ma.clone() * s, |r| chk("a * s", &r, &|x, _| x * s));
            must("&a * s", || &ma * s, |r| chk("&a * s", &r, &|x, _| x * s));
            must("s * a", || s * ma.clone(), |r| chk("s * a", &r, &|x, _| s * x));
            must("a / s", || ma.clone() / s, |r| chk("a / s", &r, &|x, _| x / s));
            must("&a / s", || &ma / s, |r| chk("&a / s", &r, &|x, _| x / s));
            must("a += b", || { let mut t = ma.clone(); t += mb.clone(); t }, |r| chk("a += b", &r, &|x, y| x + y));
            must("a += &b", || { let mut t = ma.clone(); t += &mb; t }, |r| chk("a += &b", &r, &|x, y| x + y));
            must("a -= b", || { let mut t = ma.clone(); t -= mb.clone(); t }, |r| chk("a -= b", &r, &|x, y| x - y));
            must("a -= &b", || { let mut t = ma.clone(); t -= &mb; t }, |r| chk("a -= &b", &r, &|x, y| x - y));
            must("a += s", || { let mut t = ma.clone(); t += s; t }, |r| chk("a += s", &r, &|x, _| x + s));
            must("a -= s", || { let mut t = ma.clone(); t -= s; t }, |r| chk("a -= s", &r, &|x, _| x - s));
            must("a *= s", || { let mut t = ma.clone(); t *= s; t }, |r| chk("a *= s", &r, &|x, _| x * s));
            must("a /= s", || { let mut t = ma.clone(); t /= s; t }, |r| chk("a /= s", &r, &|x, _| x / s));
        }
        "banded" => {
            let (n, m1, m2) = (geti(p, "n"), geti(p, "m1"), geti(p, "m2"));
            let inb = |i: usize, j: usize| j <= i + m2 && i <= j + m1;
            let mk = |q: &str| { let mut m = Banded::<Sym>::new(n, m1, m2, Sym::lit(0.0)); let mut e = vec![vec![Sym::lit(0.0); n]; n]; for i in 0..n { for j in 0..n { if inb(i, j) { let v = Sym::var(&format!("{}_{}_{}", q, i, j)); m[(i, j)] = v; e[i][j] = v; } } } (m, e) };
            let ((ma, a), (mb, b)) = (mk("a"), mk("b"));
            let g = "Banded: element-wise arithmetic is one IEEE operation per in-band entry";
            let chk = |name: &str, r: &Banded<Sym>, f: &F2<'_>| { if check_that(r.size() == n && r.size_below() == m1 && r.size_above() == m2, || format!("{}: shape", name)) { for i in 0..n { for j in 0..n { if inb(i, j) { one_rounding(g, &format!("{} entry ({},{})", name, i, j), r[(i, j)], f(a[i][j], b[i][j])); } } } } };
            must("a + b", || ma.clone() + mb.clone(), |r| chk("a + b", &r, &|x, y| x + y));
            must("&a + &b", || &ma + &mb, |r| chk("&a + &b", &r, &|x, y| x + y));
            must("a - b", || ma.clone() - mb.clone(), |r| chk("a - b", &r, &|x, y| x - y));
            must("&a - &b", || &ma - &mb, |r| chk("&a - &b", &r, &|x, y| x - y));
            must("-a", || -ma.clone(), |r| chk("-a", &r, &|x, _| -x));
            must("-&a", || -&ma, |r| chk("-&a", &r, &|x, _| -x));
            must("a * s", || ma.clone() * s, |r| chk("a * s", &r, &|x, _| x * s));
            must("&a * s", || &ma * s, |r| chk("&a * s", &r, &|x, _| x * s));
            must("a / s", || ma.clone() / s, |r| chk("a / s", &r, &|x, _| x / s));
            must("&a / s", || &ma / s, |r| chk("&a / s", &r, &|x, _| x / s));
            must("a += b", || { let mut t = ma.clone(); t += mb.clone(); t }, |r| chk("a += b", &r, &|x, y| x + y));
            must("a += &b", || { let mut t = ma.clone(); t += &mb; t }, |r| chk("a += &b", &r, &|x, y| x + y));
            must("a -= b", || { let mut t = ma.clone(); t -= mb.clone(); t }, |r| chk("a -= b", &r, &|x, y| x - y));
            must("a -= &b", || { let mut t = ma.clone(); t -= &mb; t }, |r| chk("a -= &b", &r, &|x, y| x - y));
            must("a += s", || { let mut t = ma.clone(); t += s; t }, |r| chk("a += s", &r, &|x, _| x + s));
            must("a -= s", || { let mut t = ma.clone(); t -= s; t }, |r| chk("a -= s", &r, &|x, _| x - s));
            must("a *= s", || { let mut t = ma.clone(); t *= s; t }, |r| chk("a *= s", &r, &|x, _| x * s));
            must("a /= s", || { let mut t = ma.clone(); t /= s; t }, |r| chk("a /= s", &r, &|x, _| x / s));
        }
        "tridiagonal" => {
            let n = geti(p, "n");
            let inb = |i: usize, j: usize| i == j || i == j + 1 || i + 1 == j;
            let mk = |q: &str| { let (sub, main, sup) = (var_vec(&format!("{}sub", q), n - 1), var_vec(&format!("{}main", q), n), var_vec(&format!("{}sup", q), n - 1)); let mut e = vec![vec![Sym::lit(0.0); n]; n]; for i in 0..n { e[i][i] = main[i]; if i + 1 < n { e[i][i + 1] = sup[i]; e[i + 1][i] = sub[i]; } } (Tridiagonal::<Sym>::with_vecs(sub, main, sup), e) };
            let ((ma, a), (mb, b)) = (mk("a"), mk("b"));
            let g = "Tridiagonal: element-wise arithmetic is one IEEE operation per in-band entry";
            let chk = |name: &str, r: &Tridiagonal<Sym>, f: &F2<'_>| { if check_that(r.size() == n, || format!("{}: size", name)) { for i in 0..n { for j in 0..n { if inb(i, j) { one_rounding(g, &format!("{} entry ({},{})", name, i, j), r[(i, j)], f(a[i][j], b[i][j])); } } } } };
            must("a + b", || ma.clone() + mb.clone(), |r| chk("a + b", &r, &|x, y| x + y));
            must("a - b", || ma.clone() - mb.clone(), |r| chk("a - b", &r, &|x, y| x - y));
            must("-a", || -ma.clone(), |r| chk("-a", &r, &|x, _| -x));
            must("a * s", || ma.clone() * s, |r| chk("a * s", &r, &|x, _| x * s));
            must("s * a", || s * ma.clone(), |r| chk("s * a", &r, &|x, _| s * x));
            must("a / s", || ma.clone() / s, |r| chk("a / s", &r, &|x, _| x / s));
            must("a += s", || { let mut t = ma.clone(); t += s; t }, |r| chk("a += s", &r, &|x, _| x + s));
            must("a -= s", || { let mut t = ma.clone(); t -= s; t }, |r| chk("a -= s", &r, &|x, _| x - s));
            must("a *= s", || { let mut t = ma.clone(); t *= s; t }, |r| chk("a *= s", &r, &|x, _| x * s));
            must("a /= s", || { let mut t = ma.clone(); t /= s; t }, |r| chk("a /= s", &r, &|x, _| x / s));
        }
        _ => panic!("unknown fp_arith kind"),
    }
    control("fp_arith control", eq(s, s + Sym::lit(1.0)));
}
