pub mod c01;
pub mod c02;
pub mod c03;
pub mod c04;
pub mod c05;
pub mod c06;
pub mod c07;
pub mod c08;
pub mod c10;
pub mod c11;
pub mod c12;
pub mod c13;
pub mod c14;
pub mod c15;
pub mod c16;
pub mod c17;
pub mod c18;
pub mod c19;
pub mod c20;
pub mod fparith;

use symcore::Config;

pub fn instances(prop: &str, tier: &str, seed: u64) -> Vec<String> {
    match prop {
        "C01" => c01::instances(tier),
        "C02" => c02::instances(tier),
        "C03" => c03::instances(tier),
        "C04" => c04::instances(tier),
        "C05" => c05::instances(tier),
        "C06" => c06::instances(tier, seed),
        "C07" => c07::instances(tier, seed),
        "C08" => c08::instances(tier),
        "C09" => c08::instances_c09(tier),
        "C10" => c10::instances(tier),
        "C11" => c11::instances(tier),
        "C12" => c12::instances(tier),
        "C13" => c13::instances(tier),
        "C14" => c14::instances(tier),
        "C15" => c15::instances(tier),
        "C16" => c16::instances(tier),
        "C17" => c17::instances(tier),
        "C18" => c18::instances(tier),
        "C19" => c19::instances(tier),
        "C20" => c20::instances(tier),
        _ => vec![],
    }
}

pub fn configure(prop: &str, inst: &str, cfg: &mut Config) {
    // the "one rounding" clause is judged on the raw DAG: no algebraic simplification
    if inst.starts_with("fp_arith") || inst.starts_with("fp_restore") || inst.starts_with("fp_interp") || inst.starts_with("fp_space") { cfg.simplify = false; return; }
    match prop {
        "C13" => c13::configure(inst, cfg),
        "C10" => c10::configure(inst, cfg),
        "C14" => c14::configure(inst, cfg),
        "C08" | "C09" => { cfg.decide_timeout_ms = cfg.decide_timeout_ms.min(1500); }
        _ => {}
    }
}

pub fn body(prop: &str, inst: &str) {
    body_inner(prop, inst);
    // every completed path carries a false-by-construction control: it must be refutable
    let g = symcore::Sym::var("ctl");
    symcore::control("generic control", symcore::eq(g, g + symcore::Sym::lit(1.0)));
}

fn body_inner(prop: &str, inst: &str) {
    if inst.starts_with("fp_arith") { let (_, p) = parse_inst(inst); return fparith::body(&p["of"], &p); }
    match prop {
        "C01" => c01::body(inst),
        "C02" => c02::body(inst),
        "C03" => c03::body(inst),
        "C04" => c04::body(inst),
        "C05" => c05::body(inst),
        "C06" => c06::body(inst),
        "C07" => c07::body(inst),
        "C08" => c08::body(inst),
        "C09" => c08::body_c09(inst),
        "C10" => c10::body(inst),
        "C11" => c11::body(inst),
        "C12" => c12::body(inst),
        "C13" => c13::body(inst),
        "C14" => c14::body(inst),
        "C15" => c15::body(inst),
        "C16" => c16::body(inst),
        "C17" => c17::body(inst),
        "C18" => c18::body(inst),
        "C19" => c19::body(inst),
        "C20" => c20::body(inst),
        _ => panic!("unknown property {}", prop),
    }
}

/// parse "kind:k=v,k=v" -> (kind, map)
pub fn parse_inst(inst: &str) -> (String, std::collections::BTreeMap<String, String>) {
    let (kind, rest) = inst.split_once(':').unwrap_or((inst, ""));
    let mut m = std::collections::BTreeMap::new();
    for kv in rest.split(',') { if let Some((k, v)) = kv.split_once('=') { m.insert(k.to_string(), v.to_string()); } }
    (kind.to_string(), m)
}
pub fn geti(m: &std::collections::BTreeMap<String, String>, k: &str) -> usize { m.get(k).and_then(|v| v.parse().ok()).unwrap_or(0) }
