//! Self-validation of the encoder (DESIGN.md section 8): the same inputs are pushed through the REAL crate at f64
//! and through the derived crate at `Sym` in concrete-float mode; every result must be bit-identical.  This checks
//! the lexical re-typing and the Sym operator implementations against the real build on the repository's own kind
//! of test inputs.
use std::collections::BTreeMap;
use symcore::*;

fn bits(x: f64) -> u64 { x.to_bits() }
fn sv(s: Sym) -> f64 { s.to_f64().unwrap_or(f64::NAN) }

pub fn run() -> (usize, Vec<String>) {
    let mut n = 0usize;
    let mut bad: Vec<String> = Vec::new();
    fn same(real: &[f64], sym: &[f64]) -> bool { real.len() == sym.len() && real.iter().zip(sym.iter()).all(|(a, b)| bits(*a) == bits(*b) || (a.is_nan() && b.is_nan())) }
    // derived-side computations must run inside a concrete-float engine
    let mut results: Vec<(String, Vec<f64>)> = Vec::new();
    {
        let mut body = || {
            use ohsl_sym::{Cmplx, Mat64, Mesh1D, Newton, Polynomial, Sparse, Vec64, Vector};
            let l = |x: f64| Sym::lit(x);
            let pts = [(1.0, 1.0), (-0.5, 0.25), (2.0, -3.0), (-1.5, -0.75), (0.3, 0.0), (0.0, 2.0)];
            for (k, (re, im)) in pts.iter().enumerate() {
                let z = Cmplx::new(l(*re), l(*im));
                let w = Cmplx::new(l(0.5), l(-1.25));
                let fs: Vec<(&str, Cmplx)> = vec![
                    ("sqrt", z.sqrt()), ("exp", z.exp()), ("ln", z.ln()), ("pow", z.pow(&w)), ("powf", z.powf(l(1.7))), ("log", z.log(w)),
                    ("sin", z.sin()), ("cos", z.cos()), ("tan", z.tan()), ("sec", z.sec()), ("csc", z.csc()), ("cot", z.cot()),
                    ("asin", z.asin()), ("acos", z.acos()), ("atan", z.atan()), ("asec", z.asec()), ("acsc", z.acsc()), ("acot", z.acot()),
                    ("sinh", z.sinh()), ("cosh", z.cosh()), ("tanh", z.tanh()), ("sech", z.sech()), ("csch", z.csch()), ("coth", z.coth()),
                    ("asinh", z.asinh()), ("acosh", z.acosh()), ("atanh", z.atanh()), ("asech", z.asech()), ("acsch", z.acsch()), ("acoth", z.acoth()),
                    ("mul", z * w), ("div", z / w), ("polar", Cmplx::polar(z.abs(), z.arg())),
                ];
                for (name, v) in fs { results.push((format!("complex {} @{}", name, k), vec![sv(v.real), sv(v.imag)])); }
            }
            for (k, c) in [vec![-6.0, 11.0, -6.0, 1.0], vec![1.0, 0.0, 1.0], vec![2.0, -3.0, 0.5, 4.0, 1.0], vec![-1.0, 0.0, 0.0, 0.0, 0.0, 1.0], vec![3.0, 1.0]].iter().enumerate() {
                let p = Polynomial::<Sym>::new(c.iter().map(|x| l(*x)).collect());
                for refine in [false, true] {
                    let r = p.roots(refine);
                    results.push((format!("roots #{} refine={}", k, refine), (0..r.size()).flat_map(|i| vec![sv(r[i].real), sv(r[i].imag)]).collect()));
                }
            }
            // sparse solvers on the 5x5-like system
            let mut trip = vec![(0usize, 0usize, 4.0), (1, 0, -1.0), (0, 1, -1.5), (1, 1, 5.0), (2, 1, -1.0), (1, 2, -0.5), (2, 2, 6.0), (3, 2, 1.0), (2, 3, 2.0), (3, 3, 7.0), (4, 3, -2.0), (3, 4, 1.0), (4, 4, 8.0)];
            let mut st: Vec<(usize, usize, Sym)> = trip.drain(..).map(|(i, j, v)| (i, j, l(v))).collect();
            let a = Sparse::from_triplets(5, 5, &mut st);
            let b = Vector::create((1..=5).map(|i| l(i as f64)).collect());
            for name in ["cg", "bicg1", "bicg2", "bicgstab", "qmr"] {
                let mut x = Vector::create(vec![l(0.0); 5]);
                let r = match name { "cg" => a.solve_cg(&b, &mut x, 50, l(1e-10)), "bicg1" => a.solve_bicg(&b, &mut x, 50, l(1e-10), 1), "bicg2" => a.solve_bicg(&b, &mut x, 50, l(1e-10), 2), "bicgstab" => a.solve_bicgstab(&b, &mut x, 50, l(1e-10)), _ => a.solve_qmr(&b, &mut x, 50, l(1e-10)) };
                let mut out: Vec<f64> = (0..5).map(|i| sv(x[i])).collect();
                out.push(match r { Ok(k) => k as f64, Err(e) => -sv(e) });
                results.push((format!("sparse {}", name), out));
            }
            let v = Vec64::create(vec![l(1.0), l(-2.5), l(0.125), l(3.75)]);
            results.push(("norms".into(), vec![sv(v.norm_2()), sv(v.norm_inf()), sv(v.norm_p(l(3.0))), sv(v.norm_p(l(2.5)))]));
            let ls = Vec64::linspace(l(-1.0), l(2.0), 7);
            results.push(("linspace".into(), (0..7).map(|i| sv(ls[i])).collect()));
            let ps = Vec64::powspace(l(0.0), l(2.0), 6, l(1.5));
            results.push(("powspace".into(), (0..6).map(|i| sv(ps[i])).collect()));
            let w2 = Vec64::create((0..37).map(|i| l(0.1 * i as f64 - 1.3)).collect());
            results.push(("dot_f64".into(), vec![sv(w2.dot_f64(&w2)), sv(w2.dot(&w2))]));
            let mut m = Mat64::new(3, 3, l(0.0));
            for (i, row) in [[2.0, -1.0, 0.5], [1.0, 3.0, -2.0], [0.25, 1.5, 4.0]].iter().enumerate() { for j in 0..3 { m[(i, j)] = l(row[j]); } }
            results.push(("matrix norms".into(), vec![sv(m.norm_1()), sv(m.norm_inf()), sv(m.norm_frob()), sv(m.norm_max()), sv(m.determinant())]));
            let rhs = Vector::create(vec![l(1.0), l(-2.0), l(0.5)]);
            let xs = m.clone().solve_basic(&rhs);
            let xl = m.clone().solve_lu(&rhs);
            results.push(("dense solves".into(), (0..3).map(|i| sv(xs[i])).chain((0..3).map(|i| sv(xl[i]))).collect()));
            let f = |x: Sym| x * x * x - l(2.0) * x - l(5.0);
            let nw = Newton::<Sym>::new(l(2.0));
            results.push(("newton scalar".into(), vec![match nw.solve(&f) { Ok(v) => sv(v), Err(v) => -sv(v) }]));
            let g = |v: Vec64| Vector::create(vec![v[0] * v[0] + v[1] * v[1] - l(4.0), v[0] * v[1] - l(1.0)]);
            let nv = Newton::<Vec64>::new(Vector::create(vec![l(2.0), l(0.3)]));
            results.push(("newton system".into(), match nv.solve(&g) { Ok(v) => vec![sv(v[0]), sv(v[1])], Err(v) => vec![-sv(v[0]), -sv(v[1])] }));
            let j = Mat64::jacobian(Vector::create(vec![l(1.0), l(2.0)]), &g, l(1.0e-8));
            results.push(("jacobian".into(), vec![sv(j[(0, 0)]), sv(j[(0, 1)]), sv(j[(1, 0)]), sv(j[(1, 1)])]));
            let mut mesh = Mesh1D::<Sym, Sym>::new(Vector::create(vec![l(0.0), l(0.25), l(1.0), l(1.5)]), 1);
            for (k, y) in [1.0, 2.5, -1.0, 4.0].iter().enumerate() { mesh[k][0] = l(*y); }
            results.push(("mesh1d".into(), vec![sv(mesh.get_interpolated_vars(l(0.6))[0]), sv(mesh.get_interpolated_vars(l(0.25))[0]), sv(mesh.trapezium(0))]));
        };
        let cr = run_concrete(Config::default(), true, &BTreeMap::new(), &mut body);
        for e in cr.errors { bad.push(format!("derived-crate run failed: {}", e)); }
    }
    // the same with the real crate at f64
    let mut real: BTreeMap<String, Vec<f64>> = BTreeMap::new();
    {
        use ohsl::{Cmplx, Mat64, Mesh1D, Newton, Polynomial, Sparse, Vec64, Vector};
        let pts = [(1.0, 1.0), (-0.5, 0.25), (2.0, -3.0), (-1.5, -0.75), (0.3, 0.0), (0.0, 2.0)];
        for (k, (re, im)) in pts.iter().enumerate() {
            let z = Cmplx::new(*re, *im);
            let w = Cmplx::new(0.5, -1.25);
            let fs: Vec<(&str, Cmplx)> = vec![
                ("sqrt", z.sqrt()), ("exp", z.exp()), ("ln", z.ln()), ("pow", z.pow(&w)), ("powf", z.powf(1.7)), ("log", z.log(w)),
                ("sin", z.sin()), ("cos", z.cos()), ("tan", z.tan()), ("sec", z.sec()), ("csc", z.csc()), ("cot", z.cot()),
                ("asin", z.asin()), ("acos", z.acos()), ("atan", z.atan()), ("asec", z.asec()), ("acsc", z.acsc()), ("acot", z.acot()),
                ("sinh", z.sinh()), ("cosh", z.cosh()), ("tanh", z.tanh()), ("sech", z.sech()), ("csch", z.csch()), ("coth", z.coth()),
                ("asinh", z.asinh()), ("acosh", z.acosh()), ("atanh", z.atanh()), ("asech", z.asech()), ("acsch", z.acsch()), ("acoth", z.acoth()),
                ("mul", z * w), ("div", z / w), ("polar", Cmplx::polar(z.abs(), z.arg())),
            ];
            for (name, v) in fs { real.insert(format!("complex {} @{}", name, k), vec![v.real, v.imag]); }
        }
        for (k, c) in [vec![-6.0, 11.0, -6.0, 1.0], vec![1.0, 0.0, 1.0], vec![2.0, -3.0, 0.5, 4.0, 1.0], vec![-1.0, 0.0, 0.0, 0.0, 0.0, 1.0], vec![3.0, 1.0]].iter().enumerate() {
            let p = Polynomial::<f64>::new(c.clone());
            for refine in [false, true] {
                let r = p.roots(refine);
                real.insert(format!("roots #{} refine={}", k, refine), (0..r.size()).flat_map(|i| vec![r[i].real, r[i].imag]).collect());
            }
        }
        let mut trip = vec![(0usize, 0usize, 4.0), (1, 0, -1.0), (0, 1, -1.5), (1, 1, 5.0), (2, 1, -1.0), (1, 2, -0.5), (2, 2, 6.0), (3, 2, 1.0), (2, 3, 2.0), (3, 3, 7.0), (4, 3, -2.0), (3, 4, 1.0), (4, 4, 8.0)];
        let a = Sparse::from_triplets(5, 5, &mut trip);
        let b = Vector::create((1..=5).map(|i| i as f64).collect());
        for name in ["cg", "bicg1", "bicg2", "bicgstab", "qmr"] {
            let mut x = Vector::create(vec![0.0; 5]);
            let r = match name { "cg" => a.solve_cg(&b, &mut x, 50, 1e-10), "bicg1" => a.solve_bicg(&b, &mut x, 50, 1e-10, 1), "bicg2" => a.solve_bicg(&b, &mut x, 50, 1e-10, 2), "bicgstab" => a.solve_bicgstab(&b, &mut x, 50, 1e-10), _ => a.solve_qmr(&b, &mut x, 50, 1e-10) };
            let mut out: Vec<f64> = (0..5).map(|i| x[i]).collect();
            out.push(match r { Ok(k) => k as f64, Err(e) => -e });
            real.insert(format!("sparse {}", name), out);
        }
        let v = Vec64::create(vec![1.0, -2.5, 0.125, 3.75]);
        real.insert("norms".into(), vec![v.norm_2(), v.norm_inf(), v.norm_p(3.0), v.norm_p(2.5)]);
        let ls = Vec64::linspace(-1.0, 2.0, 7);
        real.insert("linspace".into(), (0..7).map(|i| ls[i]).collect());
        let ps = Vec64::powspace(0.0, 2.0, 6, 1.5);
        real.insert("powspace".into(), (0..6).map(|i| ps[i]).collect());
        let w2 = Vec64::create((0..37).map(|i| 0.1 * i as f64 - 1.3).collect());
        real.insert("dot_f64".into(), vec![w2.dot_f64(&w2), w2.dot(&w2)]);
        let mut m = Mat64::new(3, 3, 0.0);
        for (i, row) in [[2.0, -1.0, 0.5], [1.0, 3.0, -2.0], [0.25, 1.5, 4.0]].iter().enumerate() { for j in 0..3 { m[(i, j)] = row[j]; } }
        real.insert("matrix norms".into(), vec![m.norm_1(), m.norm_inf(), m.norm_frob(), m.norm_max(), m.determinant()]);
        let rhs = Vector::create(vec![1.0, -2.0, 0.5]);
        let xs = m.clone().solve_basic(&rhs);
        let xl = m.clone().solve_lu(&rhs);
        real.insert("dense solves".into(), (0..3).map(|i| xs[i]).chain((0..3).map(|i| xl[i])).collect());
        let f = |x: f64| x * x * x - 2.0 * x - 5.0;
        let nw = Newton::<f64>::new(2.0);
        real.insert("newton scalar".into(), vec![match nw.solve(&f) { Ok(v) => v, Err(v) => -v }]);
        let g = |v: Vec64| Vector::create(vec![v[0] * v[0] + v[1] * v[1] - 4.0, v[0] * v[1] - 1.0]);
        let nv = Newton::<Vec64>::new(Vector::create(vec![2.0, 0.3]));
        real.insert("newton system".into(), match nv.solve(&g) { Ok(v) => vec![v[0], v[1]], Err(v) => vec![-v[0], -v[1]] });
        let j = Mat64::jacobian(Vector::create(vec![1.0, 2.0]), &g, 1.0e-8);
        real.insert("jacobian".into(), vec![j[(0, 0)], j[(0, 1)], j[(1, 0)], j[(1, 1)]]);
        let mut mesh = Mesh1D::<f64, f64>::new(Vector::create(vec![0.0, 0.25, 1.0, 1.5]), 1);
        for (k, y) in [1.0, 2.5, -1.0, 4.0].iter().enumerate() { mesh[k][0] = *y; }
        real.insert("mesh1d".into(), vec![mesh.get_interpolated_vars(0.6)[0], mesh.get_interpolated_vars(0.25)[0], mesh.trapezium(0)]);
    }
    for (name, sym) in results {
        n += 1;
        match real.get(&name) { Some(r) => { if !same(r, &sym) { bad.push(format!("{}: real {:?} vs derived {:?}", name, r, sym)); } } None => bad.push(format!("{}: no real counterpart", name)) }
    }
    (n, bad)
}
