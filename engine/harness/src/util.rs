//! Shared helpers for harness bodies: reference models written independently of the library.
use symcore::*;

pub fn jstr(s: &str) -> String {
    let mut o = String::from("\"");
    for c in s.chars() {
        match c {
            '"' => o.push_str("\\\""),
            '\\' => o.push_str("\\\\"),
            '\n' => o.push_str("\\n"),
            '\t' => o.push_str("\\t"),
            '\r' => o.push_str("\\r"),
            c if (c as u32) < 0x20 => o.push_str(&format!("\\u{:04x}", c as u32)),
            c => o.push(c),
        }
    }
    o.push('"');
    o
}

pub fn jlist(v: &[String]) -> String {
    format!("[{}]", v.iter().map(|s| jstr(s)).collect::<Vec<_>>().join(","))
}

/// n x m grid of named variables `<p>_i_j`.
pub fn var_grid(p: &str, r: usize, c: usize) -> Vec<Vec<Sym>> {
    (0..r).map(|i| (0..c).map(|j| Sym::var(&format!("{}_{}_{}", p, i, j))).collect()).collect()
}
pub fn var_vec(p: &str, n: usize) -> Vec<Sym> {
    (0..n).map(|i| Sym::var(&format!("{}_{}", p, i))).collect()
}

/// Determinant by cofactor expansion along the first row (independent of the library).
pub fn det(a: &[Vec<Sym>]) -> Sym {
    let n = a.len();
    if n == 0 { return Sym::lit(1.0); }
    if n == 1 { return a[0][0]; }
    let mut acc = Sym::lit(0.0);
    for j in 0..n {
        let minor: Vec<Vec<Sym>> = (1..n).map(|i| (0..n).filter(|&k| k != j).map(|k| a[i][k]).collect()).collect();
        let t = a[0][j] * det(&minor);
        if j % 2 == 0 { acc = acc + t; } else { acc = acc - t; }
    }
    acc
}

pub fn dotv(a: &[Sym], b: &[Sym]) -> Sym {
    let mut acc = Sym::lit(0.0);
    for i in 0..a.len() { acc = acc + a[i] * b[i]; }
    acc
}

pub fn to_matrix(a: &[Vec<Sym>]) -> ohsl::Matrix<Sym> {
    let r = a.len();
    let c = if r > 0 { a[0].len() } else { 0 };
    let mut m = ohsl::Matrix::<Sym>::new(r, c, Sym::lit(0.0));
    for i in 0..r { for j in 0..c { m[(i, j)] = a[i][j]; } }
    m
}

/// Map "file:line" of a library source location to the enclosing `fn` name,
/// by scanning the *current* source file.
pub fn site_fn(site: &str) -> String {
    let (file, line) = match site.rsplit_once(':') { Some(x) => x, None => return site.to_string() };
    let line: usize = line.parse().unwrap_or(0);
    let text = match std::fs::read_to_string(file) { Ok(t) => t, Err(_) => return site.to_string() };
    let lines: Vec<&str> = text.lines().collect();
    let mut i = line.min(lines.len());
    while i > 0 {
        let l = lines[i - 1];
        if let Some(p) = l.find("fn ") {
            let before = &l[..p];
            if before.trim().is_empty() || before.trim_end().ends_with("pub") || before.contains("pub ") || before.trim().is_empty() {
                let rest = &l[p + 3..];
                let name: String = rest.chars().take_while(|c| c.is_alphanumeric() || *c == '_').collect();
                if !name.is_empty() {
                    let f = file.rsplit("/src/").next().unwrap_or(file);
                    return format!("{}::{}", f, name);
                }
            }
        }
        i -= 1;
    }
    site.to_string()
}

pub fn stop_text(s: &Stop) -> String {
    match s {
        Stop::Panic { msg, loc } => format!("panic '{}' at {}", msg, loc),
        Stop::DivZero { site } => format!("division by zero in {}", site_fn(site)),
        Stop::Domain { what, site } => format!("{} domain error in {}", what, site_fn(site)),
        Stop::Infeasible => "infeasible".into(),
        Stop::Budget(m) => format!("budget: {}", m),
        Stop::Fence => "fence".into(),
    }
}

/// Record a refusal/failure event of library code as an obligation that must be
/// infeasible under the current path condition.
pub fn must_not_stop(what: &str, s: &Stop) {
    prove(&format!("{}: {}", what, stop_text(s)), B::False);
}

/// Reference model of a dense matrix: explicit shape + rows of terms.
#[derive(Clone)]
pub struct Model {
    pub r: usize,
    pub c: usize,
    pub e: Vec<Vec<Sym>>,
}

impl Model {
    pub fn vars(p: &str, r: usize, c: usize) -> Model { Model { r, c, e: var_grid(p, r, c) } }
    pub fn fill(r: usize, c: usize, x: Sym) -> Model { Model { r, c, e: vec![vec![x; c]; r] } }
    pub fn from_fn(r: usize, c: usize, f: impl Fn(usize, usize) -> Sym) -> Model {
        Model { r, c, e: (0..r).map(|i| (0..c).map(|j| f(i, j)).collect()).collect() }
    }
    pub fn matrix(&self) -> ohsl::Matrix<Sym> {
        let mut m = ohsl::Matrix::<Sym>::new(self.r, self.c, Sym::lit(0.0));
        for i in 0..self.r { for j in 0..self.c { m[(i, j)] = self.e[i][j]; } }
        m
    }
    pub fn map(&self, f: impl Fn(Sym) -> Sym) -> Model { Model::from_fn(self.r, self.c, |i, j| f(self.e[i][j])) }
    pub fn zip(&self, o: &Model, f: impl Fn(Sym, Sym) -> Sym) -> Model { Model::from_fn(self.r, self.c, |i, j| f(self.e[i][j], o.e[i][j])) }
    pub fn transpose(&self) -> Model { Model::from_fn(self.c, self.r, |i, j| self.e[j][i]) }
    /// The library matrix must have exactly this shape and these entries.
    pub fn expect(&self, tag: &str, m: &ohsl::Matrix<Sym>) {
        let ok = m.rows() == self.r && m.cols() == self.c && m.numel() == self.r * self.c;
        prove(&format!("{}: shape is {}x{}", tag, self.r, self.c), if ok { B::True } else { B::False });
        if !ok { return; }
        for i in 0..self.r { for j in 0..self.c {
            match catch(|| m[(i, j)]) {
                Ok(x) => { prove_eq(&format!("{}: entry ({},{})", tag, i, j), x, self.e[i][j]); }
                Err(s) => must_not_stop(&format!("{}: entry ({},{}) readable", tag, i, j), &s),
            }
        } }
    }
}

pub trait VecLike { fn vlen(&self) -> usize; fn at(&self, i: usize) -> Sym; }
impl VecLike for ohsl::Vector<Sym> { fn vlen(&self) -> usize { self.size() } fn at(&self, i: usize) -> Sym { self[i] } }
impl VecLike for ohsl_sym::Vector<Sym> { fn vlen(&self) -> usize { self.size() } fn at(&self, i: usize) -> Sym { self[i] } }

pub fn expect_vec(tag: &str, v: &impl VecLike, model: &[Sym]) {
    let ok = v.vlen() == model.len();
    prove(&format!("{}: length is {}", tag, model.len()), if ok { B::True } else { B::False });
    if !ok { return; }
    for i in 0..model.len() { prove_eq(&format!("{}: element {}", tag, i), v.at(i), model[i]); }
}

/// Run an operation that must succeed and hand its result to `then`.
pub fn must<R>(tag: &str, f: impl FnOnce() -> R, then: impl FnOnce(R)) {
    match catch(f) {
        Ok(r) => then(r),
        Err(s) => must_not_stop(&format!("{}: must not panic or fail", tag), &s),
    }
}

/// Like `must`, but a logarithm/square-root domain event (argument at a singularity, e.g. ln 0) ends the path
/// quietly: such points are outside the identities being compared.
pub fn must_off_singularities<R>(tag: &str, f: impl FnOnce() -> R, then: impl FnOnce(R)) {
    match catch(f) {
        Ok(r) => then(r),
        Err(Stop::Domain { what, .. }) => { note(format!("{}: path through a {} singularity is outside the comparison", tag, what)); check_that(true, || String::new()); }
        Err(s) => must_not_stop(&format!("{}: must not panic or fail", tag), &s),
    }
}
