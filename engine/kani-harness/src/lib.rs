//! Engine K: Kani proof harnesses over the real ohsl crate for INTEGER arguments
//! (row/column/band/node indices over all of usize, operand sizes up to 6).
//! Element values are an opaque wrapping byte type: they are irrelevant to these properties.
#![allow(dead_code)]
use ohsl::traits::{Number, One, Signed, Zero};
use std::ops::{Add, AddAssign, Div, DivAssign, Mul, MulAssign, Neg, Sub, SubAssign};

#[derive(Clone, Copy, PartialEq, PartialOrd, Debug, Default)]
pub struct W(pub u8);
impl Add for W { type Output = W; fn add(self, o: W) -> W { W(self.0.wrapping_add(o.0)) } }
impl Sub for W { type Output = W; fn sub(self, o: W) -> W { W(self.0.wrapping_sub(o.0)) } }
impl Mul for W { type Output = W; fn mul(self, o: W) -> W { W(self.0.wrapping_mul(o.0)) } }
impl Div for W { type Output = W; fn div(self, o: W) -> W { if o.0 == 0 { W(0) } else { W(self.0 / o.0) } } }
impl Neg for W { type Output = W; fn neg(self) -> W { W(self.0.wrapping_neg()) } }
impl AddAssign for W { fn add_assign(&mut self, o: W) { *self = *self + o; } }
impl SubAssign for W { fn sub_assign(&mut self, o: W) { *self = *self - o; } }
impl MulAssign for W { fn mul_assign(&mut self, o: W) { *self = *self * o; } }
impl DivAssign for W { fn div_assign(&mut self, o: W) { *self = *self / o; } }
impl Zero for W { fn zero() -> W { W(0) } }
impl One for W { fn one() -> W { W(1) } }
impl Number for W {}
impl Signed for W { fn abs(&self) -> W { *self } }

#[cfg(kani)]
mod proofs {
    use super::W;
    use ohsl::{Banded, Matrix, Mesh1D, Mesh2D, Polynomial, Sparse, Tridiagonal, Vector};

    fn any_w() -> W { W(kani::any()) }

    /// Reached only when a call that must reject RETURNED.  Under #[kani::should_panic] a plain assert would be
    /// counted as one more expected panic, so this raises a failure of another class (null dereference):
    /// "encountered failures other than panics, which were unexpected" -> the harness is reported as failed.
    fn returned_instead_of_rejecting() {
        returned_instead_of_rejecting();
        let p: *const u8 = std::ptr::null();
        let _ = unsafe { p.read_volatile() };
    }

    /// r x c matrix with symbolic entries (concrete shape)
    fn any_matrix(r: usize, c: usize) -> Matrix<W> {
        let mut m = Matrix::<W>::new(r, c, W(0));
        for i in 0..r { for j in 0..c { m[(i, j)] = any_w(); } }
        m
    }
    /// vector whose SIZE is symbolic in 0..=6
    fn any_vector_upto6() -> Vector<W> {
        let n: usize = kani::any();
        kani::assume(n <= 6);
        let mut v = Vec::with_capacity(6);
        for _ in 0..6 { v.push(any_w()); }
        v.truncate(n);
        Vector::create(v)
    }
    fn vec_of(n: usize) -> Vector<W> { let mut v = Vec::with_capacity(n); for _ in 0..n { v.push(any_w()); } Vector::create(v) }

    macro_rules! matrix_col_harnesses {
        ($ok:ident, $bad:ident, $r:expr, $c:expr) => {
            /// set_col with an in-range column writes exactly that column and nothing else
            #[kani::proof]
            #[kani::unwind(8)]
            fn $ok() {
                let m0 = any_matrix($r, $c);
                let mut m = m0.clone();
                let col: usize = kani::any();
                kani::assume(col < $c);
                let v = vec_of($r);
                let vc = v.clone();
                m.set_col(col, v);
                let (i, j): (usize, usize) = (kani::any(), kani::any());
                kani::assume(i < $r && j < $c);
                if j == col { assert!(m[(i, j)] == vc[i]); } else { assert!(m[(i, j)] == m0[(i, j)]); }
                assert!(m.rows() == $r && m.cols() == $c);
                let g = m.get_col(col);
                assert!(g.size() == $r && g[i] == vc[i]);
            }
            /// every column index >= cols is rejected by set_col, get_col and fill_col
            #[kani::proof]
            #[kani::unwind(8)]
            #[kani::should_panic]
            fn $bad() {
                let mut m = any_matrix($r, $c);
                let col: usize = kani::any();
                kani::assume(col >= $c);
                let which: u8 = kani::any();
                kani::assume(which < 3);
                match which { 0 => m.set_col(col, vec_of($r)), 1 => { let _ = m.get_col(col); } _ => m.fill_col(col, any_w()) }
                returned_instead_of_rejecting();
            }
        };
    }
    matrix_col_harnesses!(c20_matrix_cols_ok_2x3, c20_matrix_cols_rejected_2x3, 2, 3);
    matrix_col_harnesses!(c20_matrix_cols_ok_3x2, c20_matrix_cols_rejected_3x2, 3, 2);
    matrix_col_harnesses!(c20_matrix_cols_ok_1x3, c20_matrix_cols_rejected_1x3, 1, 3);

    macro_rules! matrix_row_harnesses {
        ($ok:ident, $bad:ident, $r:expr, $c:expr) => {
            #[kani::proof]
            #[kani::unwind(8)]
            fn $ok() {
                let m0 = any_matrix($r, $c);
                let mut m = m0.clone();
                let row: usize = kani::any();
                kani::assume(row < $r);
                let v = vec_of($c);
                let vc = v.clone();
                m.set_row(row, v);
                let (i, j): (usize, usize) = (kani::any(), kani::any());
                kani::assume(i < $r && j < $c);
                if i == row { assert!(m[(i, j)] == vc[j]); } else { assert!(m[(i, j)] == m0[(i, j)]); }
                let g = m.get_row(row);
                assert!(g.size() == $c && g[j] == vc[j]);
                // swap_rows with any in-range pair moves whole rows
                let (r1, r2): (usize, usize) = (kani::any(), kani::any());
                kani::assume(r1 < $r && r2 < $r);
                let before = m.clone();
                m.swap_rows(r1, r2);
                let src = if i == r1 { r2 } else if i == r2 { r1 } else { i };
                assert!(m[(i, j)] == before[(src, j)]);
            }
            #[kani::proof]
            #[kani::unwind(8)]
            #[kani::should_panic]
            fn $bad() {
                let mut m = any_matrix($r, $c);
                let row: usize = kani::any();
                kani::assume(row >= $r);
                let which: u8 = kani::any();
                kani::assume(which < 6);
                match which {
                    0 => m.set_row(row, vec_of($c)),
                    1 => { let _ = m.get_row(row); }
                    2 => m.fill_row(row, any_w()),
                    3 => m.delete_row(row),
                    4 => m.swap_rows(row, 0),
                    _ => m.swap_rows(0, row),
                }
                returned_instead_of_rejecting();
            }
        };
    }
    matrix_row_harnesses!(c20_matrix_rows_ok_2x3, c20_matrix_rows_rejected_2x3, 2, 3);
    matrix_row_harnesses!(c20_matrix_rows_ok_3x2, c20_matrix_rows_rejected_3x2, 3, 2);

    #[kani::proof]
    #[kani::unwind(8)]
    #[kani::should_panic]
    fn zz_selftest_wrong() {
        let mut m = any_matrix(2, 3);
        let col: usize = kani::any();
        kani::assume(col >= 2);
        m.fill_col(col, any_w());
        returned_instead_of_rejecting();
    }

    /// delete_row with an in-range row removes exactly that row
    #[kani::proof]
    #[kani::unwind(8)]
    fn c03_matrix_delete_row_3x2() {
        let m0 = any_matrix(3, 2);
        let mut m = m0.clone();
        let row: usize = kani::any();
        kani::assume(row < 3);
        m.delete_row(row);
        assert!(m.rows() == 2 && m.cols() == 2);
        let (i, j): (usize, usize) = (kani::any(), kani::any());
        kani::assume(i < 2 && j < 2);
        let src = if i < row { i } else { i + 1 };
        assert!(m[(i, j)] == m0[(src, j)]);
    }

    /// vector operators: any two sizes up to 6 that differ are rejected
    #[kani::proof]
    #[kani::unwind(8)]
    #[kani::should_panic]
    fn c20_vector_mismatch_rejected() {
        let a = any_vector_upto6();
        let b = any_vector_upto6();
        kani::assume(a.size() != b.size());
        let which: u8 = kani::any();
        kani::assume(which < 5);
        match which {
            0 => { let _ = &a + &b; }
            1 => { let _ = &a - &b; }
            2 => { let _ = a.dot(&b); }
            3 => { let mut t = a.clone(); t += b; }
            _ => { let mut t = a.clone(); t -= b; }
        }
        returned_instead_of_rejecting();
    }

    /// vector operators on equal sizes up to 6: element-wise, operands untouched
    #[kani::proof]
    #[kani::unwind(8)]
    fn c15_vector_elementwise() {
        let a = any_vector_upto6();
        let n = a.size();
        let mut bv = Vec::with_capacity(6);
        for _ in 0..6 { bv.push(any_w()); }
        bv.truncate(n);
        let b = Vector::create(bv);
        let s = &a + &b;
        let d = &a - &b;
        assert!(s.size() == n && d.size() == n);
        let i: usize = kani::any();
        kani::assume(i < n);
        assert!(s[i] == a[i] + b[i]);
        assert!(d[i] == a[i] - b[i]);
    }

    /// Vector accessors with an index over all of usize
    #[kani::proof]
    #[kani::unwind(8)]
    #[kani::should_panic]
    fn c20_vector_index_rejected() {
        let mut a = any_vector_upto6();
        let i: usize = kani::any();
        kani::assume(i >= a.size());
        let which: u8 = kani::any();
        kani::assume(which < 4);
        match which {
            0 => { let _ = a[i]; }
            1 => { a[i] = any_w(); }
            2 => { let _ = a.sum_slice(0, i); }
            _ => { let _ = a.product_slice(i, i); }
        }
        returned_instead_of_rejecting();
    }

    /// sum_slice over every valid (start, end) of a vector of size up to 6 equals the running sum
    #[kani::proof]
    #[kani::unwind(8)]
    fn c15_sum_slice_ranges() {
        let a = any_vector_upto6();
        let (s, e): (usize, usize) = (kani::any(), kani::any());
        kani::assume(s <= e && e < a.size());
        let got = a.sum_slice(s, e);
        let mut acc = W(0);
        let mut k = s;
        while k <= e { acc = acc + a[k]; k += 1; }
        assert!(got == acc);
    }

    /// Polynomial index over all of usize
    #[kani::proof]
    #[kani::unwind(8)]
    #[kani::should_panic]
    fn c20_polynomial_index_rejected() {
        let n: usize = kani::any();
        kani::assume(n <= 5);
        let mut c = Vec::with_capacity(5);
        for _ in 0..5 { c.push(any_w()); }
        c.truncate(n);
        let p = Polynomial::new(c);
        let i: usize = kani::any();
        kani::assume(i >= n);
        let _ = p[i];
        returned_instead_of_rejecting();
    }

    /// Tridiagonal index: inside the three diagonals the stored entry, everything else rejected
    #[kani::proof]
    #[kani::unwind(6)]
    fn c05_tridiagonal_index_in_band() {
        let (l, d, u) = ([any_w(), any_w(), any_w()], [any_w(), any_w(), any_w(), any_w()], [any_w(), any_w(), any_w()]);
        let t = Tridiagonal::with_vecs(l.to_vec(), d.to_vec(), u.to_vec());
        let (i, j): (usize, usize) = (kani::any(), kani::any());
        kani::assume(i < 4 && j < 4 && (i == j || i == j + 1 || i + 1 == j));
        let x = t[(i, j)];
        if i == j { assert!(x == d[i]); } else if i == j + 1 { assert!(x == l[j]); } else { assert!(x == u[i]); }
    }
    #[kani::proof]
    #[kani::unwind(6)]
    #[kani::should_panic]
    fn c20_tridiagonal_index_rejected() {
        let t = Tridiagonal::with_vecs(vec![any_w(); 3], vec![any_w(); 4], vec![any_w(); 3]);
        let (i, j): (usize, usize) = (kani::any(), kani::any());
        kani::assume(i >= 4 || j >= 4 || !(i == j || i == j.wrapping_add(1) || i.wrapping_add(1) == j));
        let _ = t[(i, j)];
        returned_instead_of_rejecting();
    }

    /// Banded index inside the matrix but outside the band is rejected; inside the band it is the stored entry
    #[kani::proof]
    #[kani::unwind(18)]
    fn c04_banded_index_in_band() {
        let mut b = Banded::<W>::new(4, 1, 2, W(0));
        let (i, j): (usize, usize) = (kani::any(), kani::any());
        kani::assume(i < 4 && j < 4 && j <= i + 2 && i <= j + 1);
        let v = any_w();
        b[(i, j)] = v;
        assert!(b[(i, j)] == v);
        let (p, q): (usize, usize) = (kani::any(), kani::any());
        kani::assume(p < 4 && q < 4 && q <= p + 2 && p <= q + 1 && (p, q) != (i, j));
        assert!(b[(p, q)] == W(0));
    }
    #[kani::proof]
    #[kani::unwind(18)]
    #[kani::should_panic]
    fn c20_banded_index_out_of_band_rejected() {
        let b = Banded::<W>::new(4, 1, 2, any_w());
        let (i, j): (usize, usize) = (kani::any(), kani::any());
        kani::assume(i < 4 && j < 4 && (j > i + 2 || i > j + 1));
        let _ = b[(i, j)];
        returned_instead_of_rejecting();
    }

    /// Sparse get/insert with (row, col) over all of usize at a fixed 3x3 pattern
    fn sparse3() -> (Sparse<W>, [W; 4]) {
        let v = [any_w(), any_w(), any_w(), any_w()];
        let s = Sparse::from_vecs(3, 3, v.to_vec(), vec![0, 2, 1, 2], vec![0, 2, 3, 4]);
        (s, v)
    }
    #[kani::proof]
    #[kani::unwind(8)]
    fn c06_sparse_get_in_range() {
        let (s, v) = sparse3();
        let (i, j): (usize, usize) = (kani::any(), kani::any());
        kani::assume(i < 3 && j < 3);
        let g = s.get(i, j);
        let expect = match (i, j) { (0, 0) => Some(v[0]), (2, 0) => Some(v[1]), (1, 1) => Some(v[2]), (2, 2) => Some(v[3]), _ => None };
        assert!(g == expect);
    }
    #[kani::proof]
    #[kani::unwind(8)]
    #[kani::should_panic]
    fn c20_sparse_get_rejected() {
        let (s, _) = sparse3();
        let (i, j): (usize, usize) = (kani::any(), kani::any());
        kani::assume(i >= 3 || j >= 3);
        let _ = s.get(i, j);
        returned_instead_of_rejecting();
    }
    #[kani::proof]
    #[kani::unwind(8)]
    #[kani::should_panic]
    fn c20_sparse_insert_rejected() {
        let (mut s, _) = sparse3();
        let (i, j): (usize, usize) = (kani::any(), kani::any());
        kani::assume(i >= 3 || j >= 3);
        s.insert(i, j, any_w());
        returned_instead_of_rejecting();
    }

    /// Mesh2D node accessors with (nodex, nodey) over all of usize on a 2 x 3 grid
    fn mesh23() -> Mesh2D<W> { Mesh2D::<W>::new(Vector::create(vec![0.0, 1.0]), Vector::create(vec![0.0, 0.5, 2.0]), 1) }
    #[kani::proof]
    #[kani::unwind(8)]
    fn c19_mesh2d_nodes_in_range() {
        let mut m = mesh23();
        let (i, j): (usize, usize) = (kani::any(), kani::any());
        kani::assume(i < 2 && j < 3);
        let v = any_w();
        m.set_nodes_vars(i, j, Vector::create(vec![v]));
        let (p, q): (usize, usize) = (kani::any(), kani::any());
        kani::assume(p < 2 && q < 3);
        let g = m.get_nodes_vars(p, q);
        assert!(g.size() == 1);
        if (p, q) == (i, j) { assert!(g[0] == v); } else { assert!(g[0] == W(0)); }
    }
    #[kani::proof]
    #[kani::unwind(8)]
    #[kani::should_panic]
    fn c20_mesh2d_nodes_rejected() {
        let mut m = mesh23();
        let (i, j): (usize, usize) = (kani::any(), kani::any());
        kani::assume(i >= 2 || j >= 3);
        let which: bool = kani::any();
        if which { m.set_nodes_vars(i, j, Vector::create(vec![any_w()])); } else { let _ = m.get_nodes_vars(i, j); }
        returned_instead_of_rejecting();
    }
    #[kani::proof]
    #[kani::unwind(8)]
    #[kani::should_panic]
    fn c20_mesh1d_nodes_rejected() {
        let mut m = Mesh1D::<W, W>::new(Vector::create(vec![W(0), W(1), W(2)]), 2);
        let k: usize = kani::any();
        kani::assume(k >= 3);
        let which: bool = kani::any();
        if which { m.set_nodes_vars(k, Vector::create(vec![any_w(), any_w()])); } else { let _ = m.get_nodes_vars(k); }
        returned_instead_of_rejecting();
    }

    // ---- operand SIZE mismatches (sizes symbolic in 0..6) for the vector-taking entry points of the matrix types ----

    /// Matrix::multiply / set_row / set_col / solve_basic / solve_lu with a vector of any wrong size
    #[kani::proof]
    #[kani::unwind(8)]
    #[kani::should_panic]
    fn c20_matrix_vector_size_rejected() {
        let mut m = any_matrix(2, 3);
        let v = any_vector_upto6();
        let which: u8 = kani::any();
        kani::assume(which < 5);
        match which {
            0 => { kani::assume(v.size() != 3); let _ = m.multiply(&v); }
            1 => { kani::assume(v.size() != 3); m.set_row(0, v); }
            2 => { kani::assume(v.size() != 2); m.set_col(0, v); }
            3 => { let mut sq = any_matrix(2, 2); kani::assume(v.size() != 2); let _ = sq.solve_basic(&v); }
            _ => { let mut sq = any_matrix(2, 2); kani::assume(v.size() != 2); let _ = sq.solve_lu(&v); }
        }
        returned_instead_of_rejecting();
    }

    /// Banded * vector and Banded::solve with a vector of any wrong size
    #[kani::proof]
    #[kani::unwind(18)]
    #[kani::should_panic]
    fn c20_banded_vector_size_rejected() {
        let b = Banded::<W>::new(3, 1, 1, any_w());
        let v = any_vector_upto6();
        kani::assume(v.size() != 3);
        let which: bool = kani::any();
        if which { let _ = &b * &v; } else { let _ = b.solve(&v); }
        returned_instead_of_rejecting();
    }

    /// Tridiagonal: wrong operand size for * and solve; wrong diagonal lengths for the constructors
    #[kani::proof]
    #[kani::unwind(8)]
    #[kani::should_panic]
    fn c20_tridiagonal_size_rejected() {
        let which: u8 = kani::any();
        kani::assume(which < 3);
        if which < 2 {
            let t = Tridiagonal::with_vecs(vec![any_w(); 2], vec![any_w(); 3], vec![any_w(); 2]);
            let v = any_vector_upto6();
            kani::assume(v.size() != 3);
            if which == 0 { let _ = &t * &v; } else { let _ = t.solve(&v); }
        } else {
            let (l, d, u) = (any_vector_upto6(), any_vector_upto6(), any_vector_upto6());
            kani::assume(d.size() >= 1 && (l.size() != d.size() - 1 || u.size() != d.size() - 1));
            let _ = Tridiagonal::with_vectors(l, d, u);
        }
        returned_instead_of_rejecting();
    }

    /// Sparse products with a vector of any wrong size
    #[kani::proof]
    #[kani::unwind(8)]
    #[kani::should_panic]
    fn c20_sparse_vector_size_rejected() {
        let s = Sparse::from_vecs(2, 3, vec![any_w(), any_w()], vec![0, 1], vec![0, 1, 1, 2]);
        let v = any_vector_upto6();
        let which: bool = kani::any();
        if which { kani::assume(v.size() != 3); let _ = s.multiply(&v); } else { kani::assume(v.size() != 2); let _ = s.transpose_multiply(&v); }
        returned_instead_of_rejecting();
    }

    /// Mesh node writes with a variable vector of any wrong length
    #[kani::proof]
    #[kani::unwind(8)]
    #[kani::should_panic]
    fn c20_mesh_nvars_rejected() {
        let v = any_vector_upto6();
        kani::assume(v.size() != 2);
        let which: bool = kani::any();
        if which {
            let mut m = Mesh1D::<W, W>::new(Vector::create(vec![W(0), W(1), W(2)]), 2);
            m.set_nodes_vars(1, v);
        } else {
            let mut m = Mesh2D::<W>::new(Vector::create(vec![0.0, 1.0]), Vector::create(vec![0.0, 0.5, 2.0]), 2);
            m.set_nodes_vars(1, 2, v);
        }
        returned_instead_of_rejecting();
    }

    /// matching sizes: Matrix::multiply equals the row dot products for a vector of the right size
    #[kani::proof]
    #[kani::unwind(8)]
    fn c03_matrix_multiply_2x3() {
        let m = any_matrix(2, 3);
        let v = vec_of(3);
        let r = m.multiply(&v);
        assert!(r.size() == 2);
        let i: usize = kani::any();
        kani::assume(i < 2);
        assert!(r[i] == m[(i, 0)] * v[0] + m[(i, 1)] * v[1] + m[(i, 2)] * v[2]);
    }
}
