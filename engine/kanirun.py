#!/usr/bin/env python3
"""Engine K driver: Kani/CBMC proof harnesses over the real crate (integer index / size arguments).

run(prop, tier, seed, spec, log) -> dict used by /verif/check
  spec = {"select": [substring, ...]}  harness-name substrings run for this property.
All selected harnesses must verify; `zz_selftest_wrong` (a deliberately wrong twin) must FAIL on
every run - it shows that a call which returns instead of rejecting is reported.
"""
import os, re, subprocess, sys, json, time, hashlib, fcntl

HERE = os.path.dirname(os.path.abspath(__file__))
CRATE = os.path.join(HERE, "kani-harness")
VERIF = os.path.dirname(HERE)
TARGET = os.path.join(VERIF, ".build", "kani-target")
ENV = dict(os.environ, CARGO_NET_OFFLINE="true")
SELFTEST = "zz_selftest_wrong"


def _kani(args, timeout):
    os.makedirs(os.path.join(VERIF, ".build"), exist_ok=True)
    lock = open(os.path.join(VERIF, ".build", "kani.lock"), "w")
    fcntl.flock(lock, fcntl.LOCK_EX)
    try:
        # the lock file of /repo is authoritative for the dependency versions
        try:
            src = open("/repo/Cargo.lock").read()
            dst = os.path.join(CRATE, "Cargo.lock")
            if not os.path.exists(dst):
                open(dst, "w").write(src)
        except OSError:
            pass
        cmd = ["cargo", "kani", "--target-dir", TARGET] + args
        try:
            r = subprocess.run(cmd, cwd=CRATE, capture_output=True, text=True, timeout=timeout, env=ENV)
            return r.returncode, r.stdout + "\n" + r.stderr
        except subprocess.TimeoutExpired as e:
            return 124, "TIMEOUT after %ds\n%s" % (timeout, (e.stdout or b"").decode(errors="replace")[-2000:] if isinstance(e.stdout, bytes) else str(e.stdout)[-2000:])
    finally:
        fcntl.flock(lock, fcntl.LOCK_UN)
        lock.close()


def harness_names(select):
    src = open(os.path.join(CRATE, "src", "lib.rs")).read()
    names = re.findall(r"\n\s*fn ((?:c\d\d|zz)_\w+)\s*\(\)", src)
    # macro-generated names
    names += re.findall(r"_harnesses!\((\w+), (\w+),", src)
    flat = []
    for n in names:
        if isinstance(n, tuple):
            flat += list(n)
        else:
            flat.append(n)
    flat = sorted(set(flat))
    return [n for n in flat if any(s in n for s in select) or n == SELFTEST]


def run(prop, tier, seed, spec, log):
    t0 = time.time()
    wanted = harness_names(spec["select"])
    args = ["-j", "16", "--output-format", "terse"]
    for n in wanted:
        args += ["--harness", n]
    rc, out = _kani(args, 1800 if tier == "thorough" else 900)
    res = {"violations": [], "errors": [], "harnesses": 0, "harnesses_ok": 0, "samples": [], "summary": {}}
    m = re.search(r"Complete - (\d+) successfully verified harnesses, (\d+) failures, (\d+) total", out)
    if not m:
        res["errors"].append("kani did not complete (rc=%s): %s" % (rc, out[-1500:]))
        return res
    ok, failed_n, total = int(m.group(1)), int(m.group(2)), int(m.group(3))
    failed = sorted(set(re.findall(r"Verification failed for - proofs::(\w+)", out)))
    checked = sorted(set(re.findall(r"Checking harness proofs::(\w+)", out)))
    missing = [n for n in wanted if n not in checked]
    if missing:
        res["errors"].append("kani did not run the harnesses %s" % missing)
    if SELFTEST not in failed:
        res["errors"].append("self-test harness %s did not fail: a returning call would go unnoticed" % SELFTEST)
    covers_unreachable = len(re.findall(r"0 of 1 cover properties satisfied \(1 unreachable\)", out))
    real_failed = [n for n in failed if n != SELFTEST]
    for n in real_failed:
        # one more run of that harness alone for the failing checks and concrete values
        rc2, out2 = _kani(["--harness", n, "--exact", "-Z", "concrete-playback", "--concrete-playback=print"], 900)
        checks = re.findall(r"Failed Checks: (.*)", out2)
        test = ""
        mt = re.search(r"(#\[test\][\s\S]*?\n\}\n)", out2)
        if mt:
            test = mt.group(1)
        res["violations"].append({"engine": "kani", "harness": n, "label": "kani harness %s failed: %s" % (n, "; ".join(checks[:4]) or "see output"),
                                  "confirmed": True, "model": {"concrete_playback_test": test[:3000]}, "failed_checks": checks[:10]})
    res["harnesses"] = len(checked)
    res["harnesses_ok"] = len([n for n in checked if n not in failed])
    res["samples"] = [{"kani_harness": n, "status": ("FAILED" if n in failed else "SUCCESSFUL")} for n in checked[:6]]
    res["summary"] = {"tool": "Kani 0.68.0 / CBMC 6.11.0 (cadical)", "harnesses_run": checked, "verified": [n for n in checked if n not in failed],
                      "failed": failed, "expected_to_fail": [SELFTEST], "rejecting_harnesses_with_unreachable_return": covers_unreachable,
                      "bounds": "concrete shapes (2x3, 3x2, 1x3, 2x2 matrices; 3..4-row tridiagonal/banded; 3x3 and 2x3 sparse; 2x3 and 3-node meshes), index arguments over ALL of usize, vector/polynomial operand sizes symbolic in 0..6 (element-wise operators, dot, slices, Matrix::multiply/set_row/set_col/solve_*, Banded and Tridiagonal products/solves/constructors, Sparse products, mesh node writes); unwinding assertions on",
                      "wall_s": round(time.time() - t0, 1)}
    return res


def write_replay(prop, v):
    os.makedirs(os.path.join(VERIF, "replays"), exist_ok=True)
    body = {"engine": "kani", "property": prop, "harness": v["harness"], "label": v["label"], "failed_checks": v.get("failed_checks"), "model": v.get("model")}
    h = hashlib.sha1(json.dumps(body, sort_keys=True).encode()).hexdigest()[:10]
    p = os.path.join(VERIF, "replays", "%s-kani-%s.json" % (prop, h))
    json.dump(body, open(p, "w"), indent=1)
    return p


def replay(body):
    rc, out = _kani(["--harness", body["harness"], "--exact"], 900)
    print(out[-3000:])
    if re.search(r"Verification failed for - proofs::%s" % re.escape(body["harness"]), out) or "VERIFICATION:- FAILED" in out:
        print("REPRODUCED property=%s harness=%s" % (body["property"], body["harness"]))
        return 1
    print("not reproduced")
    return 0


if __name__ == "__main__":
    if "--setup" in sys.argv:
        rc, out = _kani(["-j", "16", "--output-format", "terse"], 1800)
        m = re.search(r"Complete - .*", out)
        print("kani setup:", m.group(0) if m else out[-800:])
        sys.exit(0 if m else 1)
