#!/usr/bin/env python3
"""Engine K driver (Kani harnesses) - filled in later."""
import sys
def run(prop, tier, seed, spec, log):
    return {"violations": [], "errors": [], "harnesses": 0, "harnesses_ok": 0, "samples": [], "summary": {}}
if __name__ == "__main__":
    sys.exit(0)
