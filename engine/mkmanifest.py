#!/usr/bin/env python3
"""Regenerate /verif/MANIFEST.json from propmeta.py (claimed checks + not_applicable list)."""
import json, os, sys
sys.path.insert(0, os.path.dirname(os.path.abspath(__file__)))
import propmeta

VERIF = "/verif"
ALL = ["C%02d" % i for i in range(1, 21)]

checks, na = [], []
for pid in ALL:
    m = propmeta.PROPS.get(pid)
    if not m or m.get("not_applicable"):
        na.append({"property_id": pid, "reason": (m or {}).get("not_applicable", "check not built yet in this session (work in progress; see DESIGN.md section 4 for the plan)")})
        continue
    checks.append({
        "property_id": pid,
        "quick_cmd": "./check %s --tier quick" % pid,
        "thorough_cmd": "./check %s --tier thorough" % pid,
        "evidence_file": "/verif/evidence/%s.json" % pid,
        "replay_cmd_template": "./check %s --replay {path}" % pid,
        "engine": m.get("engine", "engine-S"),
        "level_claimed": {"category": "other", "text": m["level_text"], "design_ref": m.get("design_ref", "DESIGN.md section 4, " + pid)},
        "level_note": m["level_note"],
        "technique": m.get("technique", "bounded symbolic execution of the compiled library at a term-building scalar; obligations decided by z3 (nlsat); counterexamples replayed concretely"),
    })

manifest = {
    "version": 1,
    "setup_cmd": "cd /verif/engine && python3 retype.py && CARGO_NET_OFFLINE=true cargo build --offline -p harness && python3 kanirun.py --setup && cd /verif && ./check --selfcheck",
    "hooks": {
        "guard": "ohsl_verif",
        "enable": "no source hooks are needed: the harness crates depend on /repo by path (public API, generic instantiation at symcore::Sym) and on a derived copy regenerated from /repo/src on every run",
        "baseline_off_cmd": "cd /repo && cargo test --workspace --no-fail-fast --offline",
        "source_commits": [],
        "add_only": True,
    },
    "engines": [
        {"name": "engine-S", "path": "/verif/engine/symcore", "serves_properties": [c["property_id"] for c in checks],
         "kind_free_text": "symbolic execution by operator overloading: the library's own generic code (and a lexically re-typed copy of its f64-only code) runs at a term-building scalar; branches fork under solver feasibility checks; properties are SMT obligations over all real element values (z3), models replayed concretely"},
        {"name": "engine-K", "path": "/verif/engine/kani-harness", "serves_properties": [pid for pid in ALL if propmeta.PROPS.get(pid, {}).get("kani")],
         "kind_free_text": "Kani/CBMC proof harnesses over the real crate for integer index/size arguments"},
    ],
    "checks": checks,
    "notes": "See DESIGN.md. Exit 2 from a check means the check could not conclude (it is neither a pass nor a violation).",
    "not_applicable": na,
}
json.dump(manifest, open(os.path.join(VERIF, "MANIFEST.json"), "w"), indent=1)
print("MANIFEST.json: %d checks, %d not_applicable" % (len(checks), len(na)))
