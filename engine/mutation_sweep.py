#!/usr/bin/env python3
"""Mechanical mutation sweep (a way to look for holes in the checks; not part of any check).

phase 1:  engine/mutation_sweep.py gen  <N per file> <seed> <jobs>
          applies one small syntactic mutation at a time in scratch worktrees of /repo under /tmp/ms*, keeps the
          mutants that still compile AND pass the existing suite (cargo test --test tests), writes them to
          /tmp/ms-out/<k>.diff + index.json
phase 2:  engine/mutation_sweep.py run
          for each surviving mutant: apply to /repo, run the checks mapped to the file, undo; writes
          /tmp/ms-out/results.json and prints a table (caught / inconclusive / missed)
"""
import os, re, sys, json, random, subprocess, shutil, hashlib, concurrent.futures as cf

REPO = "/repo"
OUT = "/tmp/ms-out"
MAP = {
    "matrix/solve.rs": ["C01", "C02", "C20"], "matrix/operations.rs": ["C03", "C20"], "matrix/arithmetic.rs": ["C03", "C20"],
    "matrix/functions.rs": ["C03", "C18"], "matrix/mod.rs": ["C03"], "banded.rs": ["C04", "C20"], "tridiagonal.rs": ["C05", "C20"],
    "sparse.rs": ["C06", "C07", "C08", "C09", "C20"], "polynomial/mod.rs": ["C10", "C11"], "polynomial/arithmetic.rs": ["C11", "C12", "C20"],
    "complex/mod.rs": ["C13"], "complex/elementary.rs": ["C14", "C10"], "complex/trigonometric.rs": ["C14"], "complex/hyperbolic.rs": ["C14"],
    "vector/mod.rs": ["C15"], "vector/arithmetic.rs": ["C15", "C20"], "vector/functions.rs": ["C15", "C20"], "vector/operations.rs": ["C15"],
    "vector/vec_f64.rs": ["C15", "C16"], "vector/vec_cmplx.rs": ["C15"], "newton.rs": ["C17"], "mesh1d.rs": ["C19", "C20"], "mesh2d.rs": ["C19", "C20"],
    "constant.rs": ["C14"],
}
OPS = [
    (r" \+ ", " - "), (r" - ", " + "), (r" \* ", " / "), (r" <= ", " < "), (r" < ", " <= "), (r" >= ", " > "), (r" > ", " >= "),
    (r" == ", " != "), (r" != ", " == "), (r"\+= ", "-= "), (r"-= ", "+= "), (r"\.\.=", ".."), (r"\b0\.\.", "1.."), (r" \+ 1\b", " + 2"), (r" - 1\b", ""),
    (r"\.abs\(\)", ""), (r"\brows\b", "cols"), (r"\bcols\b", "rows"), (r"\breal\b", "imag"), (r"\bimag\b", "real"),
    (r"\.sin\(\)", ".cos()"), (r"\.cos\(\)", ".sin()"), (r"\.sinh\(\)", ".cosh()"), (r"\.cosh\(\)", ".sinh()"), (r"\b0\.5\b", "0.25"), (r"\b2\.0\b", "3.0"),
    (r"\b1\.0\b", "2.0"), (r"\bm1\b", "m2"), (r"\bm2\b", "m1"), (r"\bsub\b", "sup"), (r"\[ i \]", "[ j ]"), (r"\[ j \]", "[ i ]"), (r"&&", "||"), (r"\|\|", "&&"),
]


def sites(rel, text, rng, n):
    lines = text.split("\n")
    cands = []
    depth_test = False
    for ln, line in enumerate(lines):
        code = line.split("//")[0]
        if not code.strip() or code.strip().startswith(("use ", "pub use", "#", "///", "impl", "pub struct", "pub mod", "mod ")):
            continue
        if "panic!" in code or "fmt::" in code or "write!" in code or "println" in code:
            continue
        for k, (pat, rep) in enumerate(OPS):
            for m in re.finditer(pat, code):
                cands.append((ln, k, m.start(), m.end(), rep))
    rng.shuffle(cands)
    return cands[:n], lines


def test_mutant(args):
    wt, rel, ln, start, end, rep, ident = args
    path = os.path.join(wt, "src", rel)
    orig = open(path).read()
    lines = orig.split("\n")
    lines[ln] = lines[ln][:start] + rep + lines[ln][end:]
    open(path, "w").write("\n".join(lines))
    env = dict(os.environ, CARGO_TARGET_DIR=os.path.join(wt, "target"), CARGO_NET_OFFLINE="true")
    try:
        r = subprocess.run(["cargo", "test", "--offline", "--test", "tests"], cwd=wt, capture_output=True, text=True, timeout=300, env=env)
        ok = r.returncode == 0 and "236 passed; 0 failed" in r.stdout
    except subprocess.TimeoutExpired:
        ok = False
    diff = subprocess.run(["git", "diff", "--", "src"], cwd=wt, capture_output=True, text=True).stdout
    open(path, "w").write(orig)
    return ident, ok, diff


def gen(per_file, seed, jobs):
    rng = random.Random(seed)
    shutil.rmtree(OUT, ignore_errors=True)
    os.makedirs(OUT)
    wts = []
    for j in range(jobs):
        wt = "/tmp/ms%d" % j
        subprocess.run(["git", "-C", REPO, "worktree", "remove", "--force", wt], capture_output=True)
        subprocess.run(["git", "-C", REPO, "worktree", "add", "-q", "--detach", wt, "HEAD"], check=True)
        wts.append(wt)
    tasks = []
    for rel in MAP:
        text = open(os.path.join(REPO, "src", rel)).read()
        ss, _ = sites(rel, text, rng, per_file)
        for (ln, k, s, e, rep) in ss:
            tasks.append((rel, ln, s, e, rep))
    index = []
    # each worker owns one worktree
    chunks = [tasks[i::jobs] for i in range(jobs)]

    def worker(j):
        res = []
        for n, (rel, ln, s, e, rep) in enumerate(chunks[j]):
            ident = "%s:%d:%d:%s" % (rel, ln + 1, s, rep.strip() or "del")
            res.append(test_mutant((wts[j], rel, ln, s, e, rep, ident)) + (rel,))
        return res
    with cf.ThreadPoolExecutor(max_workers=jobs) as ex:
        for res in ex.map(worker, range(jobs)):
            for ident, ok, diff, rel in res:
                if ok and diff.strip():
                    k = len(index)
                    open(os.path.join(OUT, "%d.diff" % k), "w").write(diff)
                    index.append({"k": k, "id": ident, "file": rel, "props": MAP[rel]})
    json.dump({"generated": len(tasks), "survivors": index}, open(os.path.join(OUT, "index.json"), "w"), indent=1)
    for wt in wts:
        subprocess.run(["git", "-C", REPO, "worktree", "remove", "--force", wt], capture_output=True)
    print("generated %d mutants, %d survive the existing suite" % (len(tasks), len(index)))


def run():
    idx = json.load(open(os.path.join(OUT, "index.json")))
    results = []
    for m in idx["survivors"]:
        subprocess.run(["git", "-C", REPO, "checkout", "-q", "--", "."])
        a = subprocess.run(["git", "-C", REPO, "apply", os.path.join(OUT, "%d.diff" % m["k"])], capture_output=True, text=True)
        if a.returncode != 0:
            continue
        verdicts = {}
        for p in m["props"]:
            r = subprocess.run(["./check", p], cwd="/verif", capture_output=True, text=True)
            verdicts[p] = r.returncode
            if r.returncode == 1:
                break
        subprocess.run(["git", "-C", REPO, "checkout", "-q", "--", "."])
        status = "caught" if 1 in verdicts.values() else ("inconclusive" if 2 in verdicts.values() else "missed")
        results.append(dict(m, verdicts=verdicts, status=status))
        print("%-12s %-60s %s" % (status, m["id"], verdicts), flush=True)
        json.dump(results, open(os.path.join(OUT, "results.json"), "w"), indent=1)
    subprocess.run(["git", "-C", "/verif", "checkout", "-q", "--", "evidence"])
    c = {s: sum(1 for r in results if r["status"] == s) for s in ("caught", "inconclusive", "missed")}
    print(c)


if __name__ == "__main__":
    if sys.argv[1] == "gen":
        gen(int(sys.argv[2]), int(sys.argv[3]), int(sys.argv[4]))
    else:
        run()
