"""Per-property metadata used for the evidence files (what is encoded, bounds, what lies outside)."""

COMMON_ASSUME = [
    "REAL mode: element arithmetic is read as exact arithmetic over the reals (the semantics of an exact element type); f64 rounding is outside the claim unless an obligation says FP64",
    "a division whose divisor can be zero under the path condition ends the path as an event (panic for exact types, inf/NaN for f64); the harness states whether that event is a violation",
    "solver verdicts: z3 nlsat on fresh problems; an `unknown` is never counted as discharged",
    "counterexamples are reported only after concrete replay (exact rationals, then f64) through the same library code",
]

PROPS = {
    "C01": {
        "explanation": "Matrix::<Sym>::solve_basic / solve_lu (the repository's own generic code, compiled against the current tree and instantiated at the term-building scalar) are executed on a fully symbolic n x n system with det(A) != 0 assumed (reference determinant by cofactor expansion, independent of the library). Every pivot-order path is explored (solver-pruned); on each path z3 must show: no divisor can be zero, the returned vector has length n, A*x = b row by row, every elimination multiplier has |num| <= |den| (pivoting by magnitude), and solve_basic == solve_lu component-wise.",
        "functions": ["Matrix::solve_basic", "Matrix::solve_lu", "Matrix::lu_decomp_in_place", "Matrix::max_abs_in_column", "Matrix::partial_pivot", "Matrix::gauss_with_pivot", "Matrix::backsolve", "Matrix::swap_rows", "Matrix::swap_elem", "Matrix * Vector", "Matrix::eye", "Vector::swap"],
        "bounds": {"quick": "n = 1..3 for each solver (all real entries, all pivot paths); agreement of the two solvers n = 1..2", "thorough": "n = 1..3 for each solver, agreement n = 1..3, n = 4 attempted and reported separately"},
        "outside": "n >= 4 (mixed order/algebra queries stop deciding, DESIGN 2.9); magnitude of f64 rounding error beyond the multiplier bound; Complex<f64> elements",
        "assumptions": COMMON_ASSUME + ["det(A) != 0 (the property's precondition)"],
        "level_text": "Bounded symbolic verification: for every n in the bound, every real matrix with det != 0, every right-hand side and every pivot path, z3 shows the residual A*x-b is identically zero, no divisor can vanish, multipliers are bounded by one and the two solvers agree. Values are universally quantified (solver), sizes are enumerated; nothing is sampled. This is the right level because the interesting inputs (zero/tiny pivots at a given step, sign patterns) are exactly the branch conditions of the path exploration.",
        "level_note": "Exact-real semantics stands in for f64 (rounding outside the claim); n <= 3; trusted: rustc monomorphisation, symcore emission, z3. The textbook backward-error bound for partial pivoting is cited from the proven multiplier bound, not proved.",
    },
    "C02": {
        "explanation": "Matrix::<Sym>::determinant and inverse (generic code of the current tree at the term-building scalar). determinant(): for EVERY real n x n matrix (no precondition, so singular, rank-deficient, zero-column and permutation-like matrices are inside) and every pivot path, z3 must show the returned term equals the cofactor-expansion determinant (sign under any number of row exchanges included) and that no divisor can be zero. inverse(): under det != 0, A*inv = I and inv*A = I entry by entry. The operand's entry terms after the call must be the identical arena nodes as before (left intact).",
        "functions": ["Matrix::determinant", "Matrix::inverse", "Matrix::lu_decomp_in_place", "Matrix::swap_rows", "Matrix::swap_elem", "Matrix::eye", "Matrix::clone"],
        "bounds": {"quick": "n = 1..3, all real entries, all pivot paths", "thorough": "n = 1..3 plus determinant at n = 4 (reported; part of the claim only if every obligation decides)"},
        "outside": "orders 5..8 of the quantifier text; f64 rounding; Complex<f64> elements",
        "assumptions": COMMON_ASSUME + ["inverse: det(A) != 0; determinant: none"],
        "level_text": "Bounded symbolic verification over all real matrices of order <= 3: the determinant identity (including singular inputs and exchange parity) and the two-sided inverse identity are SMT obligations discharged on every pivot path; operand immutability is checked on the term DAG.",
        "level_note": "Exact-real semantics stands in for f64; n <= 3 (n = 4 determinant attempted in thorough). Trusted: rustc monomorphisation, symcore emission, z3.",
    },
    "C03": {
        "explanation": "Every public dense-matrix operation (matrix/{mod,operations,arithmetic,functions}.rs) is executed at the term-building scalar from an ARBITRARY state of each shape (one fresh symbol per entry) and compared, shape and entry by entry, with an independent Vec<Vec<term>> model: sum/difference/negation (owned and borrowed), scalar * / += -= *= /=, matrix-matrix and matrix-vector products, (AB)^T = B^T A^T, transpose (both forms, twice), get/set_row/col for every valid index, delete_row, swap_rows for every pair, swap_elem, fill, fill_diag, fill_band for every offset, fill_tridiag, fill_row/col, resize to every shape in a box around the current one, eye, clear, new, clone. One step from an arbitrary valid state = any finite history by induction. Norms (f64-only, derived crate): norm_1/inf/max dominate every candidate and are attained, norm_frob^2 = sum of squares, norm_p(1), f64*matrix.",
        "functions": ["Matrix::{new,clone,eye,clear,get_row,get_col,set_row,set_col,delete_row,multiply,resize,transpose,transpose_in_place,swap_rows,swap_elem,fill,fill_diag,fill_band,fill_tridiag,fill_row,fill_col}", "Neg/Add/Sub/Mul/Div and *Assign impls for Matrix (owned and borrowed)", "Matrix*Matrix, Matrix*Vector", "Matrix<f64>::{norm_1,norm_inf,norm_p,norm_frob,norm_max}", "f64 * Matrix<f64>"],
        "bounds": {"quick": "all shapes 0..3 x 0..3 (16) for editing/element-wise ops; products r,k,c in 0..3 (64 triples); norms 0..3; all real values", "thorough": "shapes 0..8 x 0..8 for editing ops (as the quantifier asks), products r,k,c in 0..5, norms 0..4"},
        "outside": "norm_p for p not in {1,2} (uninterpreted pow); f64 rounding; out-of-range arguments (C20)",
        "assumptions": COMMON_ASSUME + ["scalar division: divisor != 0"],
        "level_text": "Bounded symbolic verification: for each shape in the bound the result of each operation is shown equal to the reference model for all element values (DAG identity or z3), from an arbitrary starting state, so operation histories of any length are covered by induction on the state (rows, cols, entries).",
        "level_note": "Shapes are enumerated, values are universally quantified. The private invariant mat.len() == rows*cols is observed only through numel() and by reading every (i,j). Trusted: rustc monomorphisation, symcore, retype.py for the norms, z3.",
    },
    "C04": {
        "explanation": "Banded::<Sym> (generic code of the current tree) for every (n, m1, m2) in the bound, each in-band entry its own symbol, every padding slot of the compact storage holding the symbol `pad` (reachable through Banded::new(value)). Index map, clone, negation, + - (owned/borrowed), scalar * / += -= *= /=, constant += -=, fill, fill_band for every band and the matrix-vector product are compared with the dense reference; det() must equal the cofactor determinant of the dense twin for ALL in-band values (singular included) with no feasible zero divisor; under det != 0 solve() has no feasible zero divisor on any pivot path, returns B*x = b, every elimination multiplier is bounded by one (pivoting by magnitude) and no result term mentions `pad`.",
        "functions": ["Banded::{new,fill,fill_band,det,solve,decompose,clone,size,size_below,size_above}", "Index/IndexMut<(usize,usize)> for Banded", "Neg/Add/Sub/Mul/Div and *Assign impls for Banded", "&Banded * &Vector", "Matrix::{fill,fill_col,swap_elem} as used by the compact storage"],
        "bounds": {"quick": "index map / arithmetic / mat-vec: all n = 1..6, all 0 <= m1,m2 < n; solve and det: all (m1,m2) at n <= 3 plus m1 <= 1 (any m2) at n = 4; all real values", "thorough": "algebra: n = 1..10 all bandwidths; solve/det additionally m1 <= 1, m2 <= 2 at n = 5, 6 and m1 = 2 at n = 4"},
        "outside": "solve/det beyond those (n, m1); f64 rounding; Complex<f64> elements; padding slots with pairwise different values (not constructible through the public API)",
        "assumptions": COMMON_ASSUME + ["solve: det(dense twin) != 0; det: none"],
        "level_text": "Bounded symbolic verification: shapes and bandwidths enumerated exhaustively inside the bound, all in-band and padding values universally quantified; agreement with the dense reference is an SMT obligation on every pivot path.",
        "level_note": "Exact-real semantics; pivot search makes full-bandwidth n = 4 as hard as dense n = 4, so solve/det are bounded as stated. Trusted: rustc monomorphisation, symcore, z3.",
    },
    "C05": {
        "explanation": "Tridiagonal::<Sym> (generic code of the current tree) for every n in the bound with the three diagonals fully symbolic: index/index_mut, clone, convert, transpose (both forms), negation, + -, scalar * / += -= *= /=, f64*T, new, with_elements, resize, det and the matrix-vector product (owned and borrowed) are compared with the dense twin. solve(): on every path of the Thomas algorithm it either returns T*x = r (SMT obligation per row) or panics with the zero-pivot message, and then z3 must show that some leading principal minor of the dense twin vanishes (elimination really meets a zero pivot); a division by zero is never feasible. Under strict diagonal dominance no refusal path is feasible.",
        "functions": ["Tridiagonal::{with_vecs,new,with_elements,resize,transpose,transpose_in_place,det,convert,solve,clone,size,subdiagonal,maindiagonal,superdiagonal}", "Index/IndexMut<(usize,usize)> for Tridiagonal", "Neg/Add/Sub/Mul/Div/*Assign impls", "Tridiagonal * Vector (owned, borrowed)", "f64 * Tridiagonal<f64>"],
        "bounds": {"quick": "n = 1..5, all real diagonal contents, all zero-pivot paths", "thorough": "n = 1..8"},
        "outside": "n > 8; f64 backward stability beyond 'no refusal and exact over the reals'; Complex<f64> elements (conj)",
        "assumptions": COMMON_ASSUME + ["solve_dd: |main_i| > |sub_{i-1}| + |sup_i| for every row"],
        "level_text": "Bounded symbolic verification: sizes enumerated, diagonal contents universally quantified; exact-or-refuses is decided on every path of the elimination.",
        "level_note": "Exact-real semantics. Trusted: rustc monomorphisation, symcore, retype.py (f64*T only), z3.",
    },
    "C06": {
        "explanation": "Sparse::<Sym> (generic code of the current tree): structure is enumerated, values are symbols. For every shape in the bound, EVERY duplicate-free pattern and (for up to 4 entries) EVERY triplet order: from_triplets must yield a well-formed CSC structure (col_start from 0, non-decreasing, ending at nonzero == val.len() == row_index.len(); row indices < rows; no position stored twice) and get / to_triplets / to_dense / col_index must all describe the reference map. Histories by one inductive step: from an arbitrary valid representation (random within-column order through from_vecs) each of insert-new (every absent cell), overwrite (every present cell), scale, transpose (also twice, and operand untouched) and insert;insert must give the reference result with all views agreeing and the invariants preserved.",
        "functions": ["Sparse::{from_triplets,from_vecs,col_index,get,col_start_from_index,insert,scale,transpose,to_triplets,to_dense,new_nonzero}"],
        "bounds": {"quick": "all shapes 0..3 x 0..3, all 2^(r*c) patterns, all orders for <= 4 entries (6 orders above), plus 4 seeded instances of 12 random patterns at 8x8 and 5x7 (declared subset)", "thorough": "additionally all patterns at 4x4, 4x3, 3x4, 1x4, 4x1, 2x4, 4x2, 0x4, 4x0 and 24 seeded instances up to 8x8"},
        "outside": "shapes above 4x4 other than the seeded subset; duplicate entries (excluded by the property); (row, col) out of range (C20 / Kani twin)",
        "assumptions": COMMON_ASSUME[3:] + ["values are opaque symbols: data movement is checked by term identity, scale by z3/term identity"],
        "level_text": "Exhaustive structural enumeration inside the bound with symbolic values: every view of every constructed/modified matrix is compared with the reference on the term DAG; one step from an arbitrary valid representation covers operation histories by induction.",
        "level_note": "Structure is concrete in each case (the solver is only needed where values are combined); shapes above the bound are a seeded, declared subset.",
    },
    "C07": {
        "explanation": "Sparse::<Sym>::multiply / transpose_multiply / transpose / scale for every shape and every sparsity pattern in the bound (arbitrary within-column order), with symbolic entries and symbolic vectors: A*x and A^T*y equal the dense products component-wise, transpose().multiply == transpose_multiply, transpose().transpose_multiply == multiply, <y, A x> = <A^T y, x>, and (wA)x = w(Ax), (wA)^T y = w(A^T y) - bilinear identities decided by term identity or z3.",
        "functions": ["Sparse::{multiply,transpose_multiply,transpose,scale,from_vecs}", "Vector::dot"],
        "bounds": {"quick": "all shapes 0..3 x 0..3 with all 2^(r*c) patterns; 4 seeded instances (6 patterns each) at 10x10 and 6x9", "thorough": "additionally all patterns at 4x4, 4x3, 3x4, 2x4, 4x2, 1x4, 4x1 (adjoint/scale identities on a 1/16 slice of the 4x4-class patterns) and 24 seeded instances up to 10x10"},
        "outside": "shapes above 4x4 other than the seeded subset; f64 rounding (the identities are exact over the reals)",
        "assumptions": COMMON_ASSUME,
        "level_text": "Bounded symbolic verification: patterns enumerated exhaustively inside the bound, entries and vectors universally quantified; every product component is an SMT/term-identity obligation.",
        "level_note": "Exact-real semantics. Trusted: rustc monomorphisation, symcore, z3.",
    },
}
