"""Per-property metadata used for the evidence files (what is encoded, bounds, what lies outside)."""

COMMON_ASSUME = [
    "REAL mode: element arithmetic is read as exact arithmetic over the reals (the semantics of an exact element type); f64 rounding is outside the claim unless an obligation says FP64",
    "a division whose divisor can be zero under the path condition ends the path as an event (panic for exact types, inf/NaN for f64); the harness states whether that event is a violation",
    "solver verdicts: z3 nlsat on fresh problems; an `unknown` is never counted as discharged",
    "counterexamples are reported only after concrete replay (exact rationals, then f64) through the same library code",
]

PROPS = {
    "C01": {
        "explanation": "Matrix::<Sym>::solve_basic / solve_lu (the repository's own generic code, compiled against the current tree and instantiated at the term-building scalar) are executed on a fully symbolic n x n system with det(A) != 0 assumed (reference determinant by cofactor expansion, independent of the library). Every pivot-order path is explored (solver-pruned); on each path z3 must show: no divisor can be zero, the returned vector has length n, A*x = b row by row, every elimination multiplier has |num| <= |den| (pivoting by magnitude), and solve_basic == solve_lu component-wise.",
        "functions": ["Matrix::solve_basic", "Matrix::solve_lu", "Matrix::lu_decomp_in_place", "Matrix::max_abs_in_column", "Matrix::partial_pivot", "Matrix::gauss_with_pivot", "Matrix::backsolve", "Matrix::swap_rows", "Matrix::swap_elem", "Matrix * Vector", "Matrix::eye", "Vector::swap"],
        "bounds": {"quick": "n = 1..3 for each solver (all real entries, all pivot paths); agreement of the two solvers n = 1..2", "thorough": "n = 1..3 for each solver, agreement n = 1..3, n = 4 attempted and reported separately"},
        "outside": "n >= 4 (mixed order/algebra queries stop deciding, DESIGN 2.9); magnitude of f64 rounding error beyond the multiplier bound; Complex<f64> elements",
        "assumptions": COMMON_ASSUME + ["det(A) != 0 (the property's precondition)"],
        "level_text": "Bounded symbolic verification: for every n in the bound, every real matrix with det != 0, every right-hand side and every pivot path, z3 shows the residual A*x-b is identically zero, no divisor can vanish, multipliers are bounded by one and the two solvers agree. Values are universally quantified (solver), sizes are enumerated; nothing is sampled. This is the right level because the interesting inputs (zero/tiny pivots at a given step, sign patterns) are exactly the branch conditions of the path exploration.",
        "level_note": "Exact-real semantics stands in for f64 (rounding outside the claim); n <= 3; trusted: rustc monomorphisation, symcore emission, z3. The textbook backward-error bound for partial pivoting is cited from the proven multiplier bound, not proved.",
    },
}
