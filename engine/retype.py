#!/usr/bin/env python3
"""Derive `ohsl_sym` from the *current* /repo/src by a purely lexical re-typing:
`f64` becomes the term-building scalar `symcore::Sym` (DESIGN.md section 3.2).

The transformation, in full:
  1. every module except traits.rs gets `type f64 = symcore::Sym;` appended
     (appended, not prepended, so library line numbers are preserved);
  2. float literals become `f64::lit(<same text>)` (a const fn);
  3. `EXPR as f64` becomes `f64::cast_from(EXPR)`;
  4. traits.rs keeps the primitive impls and gets Zero/One/Number/Signed for Sym appended;
  5. a fixed list of private helper fns is made `pub` so harnesses can call them;
  6. `rng.gen::<f64>()` draws a primitive double and wraps it;
  7. Complex::sqrt / Complex::pow / Polynomial::laguer get a contract-stub hook as first statement (inert by default).
Files are only rewritten when their content changes, so cargo rebuilds only on edits.
"""
import os, re, sys, shutil

REPO = os.environ.get("VERIF_REPO", "/repo")
HERE = os.path.dirname(os.path.abspath(__file__))
OUT = os.environ.get("VERIF_DERIVED", os.path.join(os.path.dirname(HERE), ".build", "ohsl_sym"))

FLOAT = re.compile(r"(?<![\w.])(\d[\d_]*\.\d[\d_]*(?:[eE][+-]?\d+)?(?:_f64)?|\d[\d_]*\.(?![.\w])|\d[\d_]*[eE][+-]?\d+(?:_f64)?|\d[\d_]*_f64)(?![\w])")
# a parenthesised expression or a call / method-call chain (`x.abs()`, `v.len()`) followed by `as T`
CAST_PAREN = re.compile(r"((?:\b[A-Za-z_]\w*(?:\.[A-Za-z_]\w*)*)?\((?:[^()]|\([^()]*\))*\)(?:\.[A-Za-z_]\w*\((?:[^()]|\([^()]*\))*\))*)\s*as\s+f64\b")
CAST_IDENT = re.compile(r"\b([A-Za-z_][\w]*(?:\.[A-Za-z_]\w*)*)\s+as\s+f64\b")
# integer casts go through a generic helper (identity for primitives) so that `x as i32` on a re-typed float still compiles
ICAST_PAREN = re.compile(r"((?:\b[A-Za-z_]\w*(?:\.[A-Za-z_]\w*)*)?\((?:[^()]|\([^()]*\))*\)(?:\.[A-Za-z_]\w*\((?:[^()]|\([^()]*\))*\))*)\s*as\s+(usize|isize|u32|u64|i32|i64)\b")
ICAST_IDENT = re.compile(r"\b([A-Za-z_][\w]*(?:\.[A-Za-z_]\w*)*)\s+as\s+(usize|isize|u32|u64|i32|i64)\b")
PUBLISH = re.compile(r"^(\s*)fn (quadratic_solve|cubic_solve|poly_solve|laguer|decompose|max_abs_in_column|backsolve|partial_pivot|gauss_with_pivot|identity_preconditioner|new_nonzero)\b", re.M)

# contract-stub hooks (inert unless a harness switches the stub on): inserted on the same line as the
# opening brace of the function so that line numbers are preserved
STUB_HOOKS = [
    (re.compile(r"fn laguer\( a: &mut Vector::<Cmplx>, x: &mut Cmplx, iterations: &mut usize \) \{"), 'if let Some((sr, si)) = symcore::stub_poly_root("laguer", &a.vec.iter().map(|c| (c.real, c.imag)).collect::<Vec<_>>()) { *x = Cmplx::new(sr, si); return; }'),
    (re.compile(r"pub fn sqrt\(&self\) -> Complex::<f64> \{"), 'if let Some((sr, si)) = symcore::stub_complex1("csqrt", self.real, self.imag) { return Complex::new(sr, si); }'),
    (re.compile(r"pub fn pow\(&self, w: &Complex::<f64>\) -> Complex::<f64> \{"), 'if let Some((sr, si)) = symcore::stub_complex_pow(self.real, self.imag, w.real, w.imag) { return Complex::new(sr, si); }'),
]

TRAIT_IMPLS = """

// ---- appended by /verif/engine/retype.py ----
impl Zero for symcore::Sym { #[inline] fn zero() -> Self { symcore::Sym::lit(0.0) } }
impl One for symcore::Sym { #[inline] fn one() -> Self { symcore::Sym::lit(1.0) } }
impl Number for symcore::Sym {}
impl Signed for symcore::Sym { #[inline] fn abs(&self) -> Self { symcore::Sym::abs(*self) } }
"""

ALIAS = "\n#[allow(non_camel_case_types, dead_code)] type f64 = symcore::Sym; // appended by retype.py\n"


def strip_f64_suffix(lit):
    return lit[:-4] if lit.endswith("_f64") else lit


def split_code(line):
    """Yield (is_code, text) pieces of one line: string literals and // comments are not code."""
    out, i, n, cur = [], 0, len(line), ""
    while i < n:
        c = line[i]
        if c == '"':
            j = i + 1
            while j < n and line[j] != '"':
                j += 2 if line[j] == "\\" else 1
            out.append((True, cur)); cur = ""
            out.append((False, line[i:j + 1])); i = j + 1
        elif line.startswith("//", i):
            out.append((True, cur)); cur = ""
            out.append((False, line[i:])); i = n
        else:
            cur += c; i += 1
    out.append((True, cur))
    return out


def retype_source(text):
    lines = []
    for line in text.split("\n"):
        pieces = []
        for is_code, t in split_code(line):
            if is_code:
                t = t.replace("rng.gen::<f64>()", "f64::lit(rng.gen::<core::primitive::f64>())")
                t = ICAST_PAREN.sub(lambda m: "symcore::cast_int::<%s, _>(%s)" % (m.group(2), m.group(1)), t)
                t = ICAST_IDENT.sub(lambda m: "symcore::cast_int::<%s, _>(%s)" % (m.group(2), m.group(1)), t)
                t = CAST_PAREN.sub(lambda m: "f64::cast_from(" + m.group(1) + ")", t)
                t = CAST_IDENT.sub(lambda m: "f64::cast_from(" + m.group(1) + ")", t)
                t = FLOAT.sub(lambda m: "f64::lit(" + strip_f64_suffix(m.group(1)) + ("0" if m.group(1).endswith(".") else "") + ")", t)
            pieces.append(t)
        lines.append("".join(pieces))
    text = "\n".join(lines)
    text = PUBLISH.sub(lambda m: m.group(1) + "pub fn " + m.group(2), text)
    for pat, hook in STUB_HOOKS:
        text = pat.sub(lambda m: m.group(0) + " " + hook, text)
    return text + ALIAS


def write_if_changed(path, content):
    os.makedirs(os.path.dirname(path), exist_ok=True)
    try:
        with open(path) as f:
            if f.read() == content:
                return False
    except FileNotFoundError:
        pass
    with open(path, "w") as f:
        f.write(content)
    return True


def main():
    src = os.path.join(REPO, "src")
    wanted = set()
    changed = 0
    for root, _dirs, files in os.walk(src):
        for fn in files:
            if not fn.endswith(".rs"):
                continue
            p = os.path.join(root, fn)
            rel = os.path.relpath(p, src)
            with open(p) as f:
                text = f.read()
            if rel == "traits.rs":
                out = text + TRAIT_IMPLS
            elif rel == "lib.rs":
                out = text + "\npub use symcore;\n"
            else:
                out = retype_source(text)
            dst = os.path.join(OUT, "src", rel)
            wanted.add(dst)
            changed += write_if_changed(dst, out)
    # remove stale files
    for root, _dirs, files in os.walk(os.path.join(OUT, "src")):
        for fn in files:
            p = os.path.join(root, fn)
            if p not in wanted:
                os.remove(p); changed += 1
    cargo = """[package]
name = "ohsl_sym"
version = "0.0.0"
edition = "2021"

[lib]
path = "src/lib.rs"

[dependencies]
rand = "0.8.5"
num_cpus = "1.16.0"
symcore = { path = "%s" }
"""
    changed += write_if_changed(os.path.join(OUT, "Cargo.toml"), cargo % os.path.join(HERE, "symcore"))
    print("retype: %d file(s) updated in %s" % (changed, OUT))


if __name__ == "__main__":
    main()
