#!/bin/bash
# run every quick (or $1) check once; print one line per property.  usage: run_all.sh [tier] [ids...]
cd "$(dirname "$0")/.."; tier=${1:-quick}; shift
ids="$@"; [ -z "$ids" ] && ids=$(for i in $(seq -w 1 20); do echo C$i; done)
for id in $ids; do
  t0=$(date +%s); out=$(./check $id --tier $tier 2>&1); rc=$?; t1=$(date +%s)
  echo "$id rc=$rc $((t1-t0))s $(echo "$out" | grep -E '^(OK|VIOLATION|INCONCLUSIVE|KNOWN)' | head -2 | tr '\n' ' ' | cut -c1-200)"
done
