#!/bin/bash
# run every quick (or $1) check once; print one line per property
cd "$(dirname "$0")/.."; tier=${1:-quick}
for i in $(seq -w 1 20); do
  t0=$(date +%s); out=$(./check C$i --tier $tier 2>&1); rc=$?; t1=$(date +%s)
  echo "C$i rc=$rc $((t1-t0))s $(echo "$out" | grep -E '^(OK|VIOLATION|INCONCLUSIVE|KNOWN)' | head -2 | tr '\n' ' ' | cut -c1-200)"
done
