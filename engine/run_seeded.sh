#!/bin/bash
# Apply each seeded change to /repo, run the check(s) of the property it breaks, undo the change.
# usage: engine/run_seeded.sh [seeded-id ...]     (default: all)
cd /verif
ids="$@"; [ -z "$ids" ] && ids=$(ls seeded)
for id in $ids; do
  d=seeded/$id; [ -f $d/patch.diff ] || continue
  prop=$(python3 -c "import json;print(json.load(open('$d/meta.json'))['breaks_property'])")
  extra=$(python3 -c "import json;print(' '.join(json.load(open('$d/meta.json')).get('also_check',[])))")
  git -C /repo checkout -q -- . ; git -C /repo apply /verif/$d/patch.diff || { echo "$id: patch does not apply"; continue; }
  for p in $prop $extra; do
    t0=$(date +%s); out=$(./check $p 2>&1); rc=$?
    echo "$id -> $p rc=$rc $(( $(date +%s) - t0 ))s $(echo "$out" | grep -c '^VIOLATION') violation line(s): $(echo "$out" | grep -m1 -E '^(VIOLATION|INCONCLUSIVE|OK)')"
  done
  git -C /repo checkout -q -- .
done
# leave evidence files as produced on the unchanged tree
git -C /verif checkout -q -- evidence 2>/dev/null
