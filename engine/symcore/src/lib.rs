//! Engine S core: term-building scalar + explorer + SMT back end (see /verif/DESIGN.md §3.1).
pub mod rat;
pub mod traits {
    pub use ohsl::traits::*;
}
pub mod sym;
pub use rat::Rat;
pub use sym::*;
