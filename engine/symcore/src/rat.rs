//! Exact rationals over i128 with overflow detection (None = overflow).
use std::cmp::Ordering;

#[derive(Clone, Copy, Debug, PartialEq, Eq, Hash)]
pub struct Rat {
    pub n: i128,
    pub d: i128, // > 0
}

fn gcd(mut a: i128, mut b: i128) -> i128 {
    if a < 0 { a = -a; }
    if b < 0 { b = -b; }
    while b != 0 {
        let t = a % b;
        a = b;
        b = t;
    }
    a
}

impl Rat {
    pub const ZERO: Rat = Rat { n: 0, d: 1 };
    pub const ONE: Rat = Rat { n: 1, d: 1 };

    pub fn new(n: i128, d: i128) -> Option<Rat> {
        if d == 0 { return None; }
        let g = gcd(n, d);
        let (mut n, mut d) = if g > 1 { (n / g, d / g) } else { (n, d) };
        if d < 0 {
            n = n.checked_neg()?;
            d = d.checked_neg()?;
        }
        Some(Rat { n, d })
    }
    pub fn int(n: i128) -> Rat { Rat { n, d: 1 } }

    /// Exact conversion of a finite f64 (every finite f64 is a dyadic rational).
    pub fn from_f64(x: f64) -> Option<Rat> {
        if !x.is_finite() { return None; }
        if x == 0.0 { return Some(Rat::ZERO); }
        let bits = x.to_bits();
        let sign: i128 = if (bits >> 63) != 0 { -1 } else { 1 };
        let exp = ((bits >> 52) & 0x7ff) as i64;
        let frac = (bits & 0x000f_ffff_ffff_ffff) as i128;
        let (mut m, mut e) = if exp == 0 { (frac, -1074i64) } else { (frac | (1i128 << 52), exp - 1075) };
        while m % 2 == 0 && e < 0 { m /= 2; e += 1; }
        if e >= 0 {
            if e > 70 { return None; }
            let p = 1i128.checked_shl(e as u32)?;
            Rat::new(sign * m.checked_mul(p)?, 1)
        } else {
            if -e > 120 { return None; }
            Rat::new(sign * m, 1i128 << ((-e) as u32))
        }
    }
    pub fn to_f64(self) -> f64 { (self.n as f64) / (self.d as f64) }
    pub fn is_zero(self) -> bool { self.n == 0 }
    pub fn add(self, o: Rat) -> Option<Rat> {
        let g = gcd(self.d, o.d);
        let l = self.d / g;
        let n = self.n.checked_mul(o.d / g)?.checked_add(o.n.checked_mul(l)?)?;
        let d = l.checked_mul(o.d)?;
        Rat::new(n, d)
    }
    pub fn neg(self) -> Option<Rat> { Some(Rat { n: self.n.checked_neg()?, d: self.d }) }
    pub fn sub(self, o: Rat) -> Option<Rat> { self.add(o.neg()?) }
    pub fn mul(self, o: Rat) -> Option<Rat> {
        let g1 = gcd(self.n, o.d).max(1);
        let g2 = gcd(o.n, self.d).max(1);
        let n = (self.n / g1).checked_mul(o.n / g2)?;
        let d = (self.d / g2).checked_mul(o.d / g1)?;
        Rat::new(n, d)
    }
    pub fn div(self, o: Rat) -> Option<Rat> {
        if o.n == 0 { return None; }
        self.mul(Rat::new(o.d, o.n)?)
    }
    pub fn abs(self) -> Option<Rat> { if self.n < 0 { self.neg() } else { Some(self) } }
    pub fn cmp(self, o: Rat) -> Option<Ordering> {
        let a = self.n.checked_mul(o.d)?;
        let b = o.n.checked_mul(self.d)?;
        Some(a.cmp(&b))
    }
    pub fn smt(self) -> String {
        let num = if self.n < 0 { format!("(- {}.0)", -(self.n)) } else { format!("{}.0", self.n) };
        if self.d == 1 { num } else { format!("(/ {} {}.0)", num, self.d) }
    }
    pub fn show(self) -> String {
        if self.d == 1 { format!("{}", self.n) } else { format!("{}/{}", self.n, self.d) }
    }
    /// Parse "p/q" or "p" or a decimal like "-0.125".
    pub fn parse(s: &str) -> Option<Rat> {
        let s = s.trim();
        if let Some((a, b)) = s.split_once('/') {
            return Rat::new(a.trim().parse().ok()?, b.trim().parse().ok()?);
        }
        if let Some((ip, fp)) = s.split_once('.') {
            let neg = ip.starts_with('-');
            let ipn: i128 = if ip == "-" || ip.is_empty() { 0 } else { ip.parse().ok()? };
            let fp = fp.trim_end_matches('?');
            let fp = if fp.len() > 30 { &fp[..30] } else { fp };
            let mut d: i128 = 1;
            for _ in 0..fp.len() { d = d.checked_mul(10)?; }
            let f: i128 = if fp.is_empty() { 0 } else { fp.parse().ok()? };
            let mag = ipn.abs().checked_mul(d)?.checked_add(f)?;
            return Rat::new(if neg { -mag } else { mag }, d);
        }
        Rat::new(s.parse().ok()?, 1)
    }
}
