//! Term-building scalar `Sym`, the global term arena, the path explorer and the
//! SMT back end.  Running library code instantiated at `Sym` natively *is* a
//! symbolic execution of that code: arithmetic appends DAG nodes, comparisons
//! are decisions whose feasibility is asked of the solver, and `prove` turns a
//! property into `PC /\ assumptions /\ not cond` which must come back unsat.
#![allow(dead_code)]

use crate::rat::Rat;
use std::cell::RefCell;
use std::collections::{BTreeMap, BTreeSet, HashMap};
use std::fmt;
use std::io::{BufRead, BufReader, Write};
use std::panic::{self, AssertUnwindSafe};
use std::process::{Child, ChildStdin, Command, Stdio};
use std::sync::mpsc::{channel, Receiver};
use std::sync::{Mutex, MutexGuard};
use std::time::{Duration, Instant};

pub const LIT: u32 = u32::MAX;

/// The scalar.  Either an inline f64 literal (node == LIT) or an arena node.
#[derive(Clone, Copy)]
pub struct Sym {
    pub node: u32,
    pub lit: f64,
}

#[derive(Clone, PartialEq, Eq, Hash, Debug)]
pub enum Node {
    Var(String),
    Const(Rat),
    FConst(u64),
    Add(u32, u32),
    Sub(u32, u32),
    Mul(u32, u32),
    Div(u32, u32),
    Neg(u32),
    Abs(u32),
    Max(u32, u32),
    Min(u32, u32),
    Sqrt(u32),
    Fun1(&'static str, u32),
    Fun2(&'static str, u32, u32),
    Fresh(u32),
}

/// Boolean terms over arena nodes.
#[derive(Clone, PartialEq, Eq, Hash, Debug)]
pub enum B {
    True,
    False,
    Lt(u32, u32),
    Le(u32, u32),
    Eq(u32, u32),
    Not(Box<B>),
    And(Vec<B>),
    Or(Vec<B>),
}

impl B {
    pub fn not(self) -> B {
        match self {
            B::True => B::False,
            B::False => B::True,
            B::Not(b) => *b,
            b => B::Not(Box::new(b)),
        }
    }
    pub fn and(v: Vec<B>) -> B { B::And(v) }
    pub fn or(v: Vec<B>) -> B { B::Or(v) }
    pub fn implies(a: B, b: B) -> B { B::Or(vec![a.not(), b]) }
    fn has_order(&self) -> bool {
        match self {
            B::Lt(..) | B::Le(..) => true,
            B::Not(b) => b.has_order(),
            B::And(v) | B::Or(v) => v.iter().any(|b| b.has_order()),
            _ => false,
        }
    }
    fn roots(&self, out: &mut Vec<u32>) {
        match self {
            B::Lt(a, b) | B::Le(a, b) | B::Eq(a, b) => { out.push(*a); out.push(*b); }
            B::Not(b) => b.roots(out),
            B::And(v) | B::Or(v) => for b in v { b.roots(out) },
            _ => {}
        }
    }
}

pub fn lt(a: Sym, b: Sym) -> B { B::Lt(a.id(), b.id()) }
pub fn le(a: Sym, b: Sym) -> B { B::Le(a.id(), b.id()) }
pub fn gt(a: Sym, b: Sym) -> B { B::Lt(b.id(), a.id()) }
pub fn ge(a: Sym, b: Sym) -> B { B::Le(b.id(), a.id()) }
pub fn eq(a: Sym, b: Sym) -> B {
    let (x, y) = (a.id(), b.id());
    if x == y { B::True } else if x < y { B::Eq(x, y) } else { B::Eq(y, x) }
}
pub fn ne(a: Sym, b: Sym) -> B { eq(a, b).not() }

#[derive(Clone, Copy, PartialEq, Debug)]
pub enum CVal {
    R(Rat),
    F(f64),
}

/// Why a piece of library code stopped instead of returning.
#[derive(Clone, Debug)]
pub enum Stop {
    /// an ordinary Rust panic (library `panic!`, index out of bounds, overflow ...)
    Panic { msg: String, loc: String },
    /// a division whose divisor can be zero on this path
    DivZero { site: String },
    /// sqrt / ln of a possibly negative argument
    Domain { what: &'static str, site: String },
    /// the path condition became infeasible (assume) - path is pruned
    Infeasible,
    /// exploration budget exhausted / arithmetic not representable
    Budget(String),
    /// a harness-installed fence (`set_fence`) fired at a decision: the library call is cut here on purpose
    /// (used to observe the state after ONE pass through a long loop); `catch` hands it to the harness
    Fence,
}

struct AbortPayload(Stop);

#[derive(Clone, Copy, PartialEq, Eq, Debug)]
pub enum Verdict {
    Sat,
    Unsat,
    Unknown,
}

#[derive(Clone, Debug, Default)]
pub struct Stats {
    pub paths: u64,
    pub paths_pruned: u64,
    pub decisions: u64,
    pub forks: u64,
    pub obligations: u64,
    pub discharged_syntactic: u64,
    pub discharged_concrete_const: u64,
    pub discharged_solver: u64,
    pub undecided: u64,
    pub failed: u64,
    pub controls: u64,
    pub controls_ok: u64,
    pub q_sat: u64,
    pub q_unsat: u64,
    pub q_unknown: u64,
    pub q_memo: u64,
    pub q_numeric: u64,
    pub solver_s: f64,
    pub nontrivial_paths: u64,
    pub cases: u64,
    pub truncated: bool,
}

#[derive(Clone, Debug)]
pub struct Candidate {
    pub label: String,
    pub trace: Vec<u8>,
    pub model: BTreeMap<String, String>,
    pub exact: bool,
    pub float: bool,
}

#[derive(Clone, Debug)]
pub struct Config {
    pub simplify: bool,
    pub float: bool,
    pub purify_div: bool,
    pub decide_timeout_ms: u64,
    pub prove_timeout_ms: u64,
    pub max_paths: u64,
    pub z3: String,
    pub z3_alt: String,
    pub seed: u64,
    pub keep_samples: usize,
    pub cvc5: String,
    pub fp_timeout_ms: u64,
    /// magnitude range used when a float counterexample has to be searched around a solver model
    pub float_search: (f64, f64),
    pub float_search_trials: u32,
    /// box used when an unreproduced real model is followed by a seeded search for a reproducing input
    pub real_search: (f64, f64),
    /// contract stubs in force (names), see `stub_complex1`
    pub stubs: Vec<String>,
    /// read the f64 literals nearest to pi, pi/2, ... as those numbers (libm axioms speak about the true pi)
    pub named_constants: bool,
}

impl Default for Config {
    fn default() -> Self {
        Config {
            simplify: true,
            float: false,
            purify_div: true,
            decide_timeout_ms: 5000,
            prove_timeout_ms: 10000,
            max_paths: 20000,
            z3: "z3".into(),
            z3_alt: "z3-new".into(),
            seed: 0,
            keep_samples: 3,
            cvc5: "cvc5".into(),
            fp_timeout_ms: 60000,
            float_search: (1.0e-3, 1.0e3),
            float_search_trials: 4000,
            real_search: (-8.0, 8.0),
            stubs: Vec::new(),
            named_constants: false,
        }
    }
}

pub struct Engine {
    nodes: Vec<Node>,
    index: HashMap<Node, u32>,
    pub cfg: Config,
    concrete: Option<BTreeMap<String, CVal>>,
    // per path
    pc: Vec<B>,
    trace: Vec<u8>,
    forced: Vec<u8>,
    fresh: u32,
    path_nontrivial: bool,
    path_oblig_labels: Vec<String>,
    div_log: Vec<(String, u32, u32)>,
    path_implied: Vec<(String, B, Vec<B>)>,
    stub_log: Vec<(String, u32, u32, u32, u32)>,
    poly_stub_log: Vec<(Vec<(u32, u32)>, u32, u32)>,
    implied_true: std::collections::HashSet<B>,
    // across paths
    worklist: Vec<Vec<u8>>,
    pub stats: Stats,
    pub candidates: Vec<Candidate>,
    pub control_failures: Vec<String>,
    pub undecided_labels: Vec<String>,
    pub concrete_failures: Vec<String>,
    pub samples: Vec<String>,
    pub notes: Vec<String>,
    pub sample_smt: Option<String>,
    solver: Option<Solver>,
    solver_alt: Option<Solver>,
    memo: HashMap<String, (Verdict, Option<BTreeMap<String, String>>)>,
    extra_axioms: Vec<B>,
    last_panic: Option<(String, String)>,
    tolerant: bool,
    /// concrete replay: accumulated rounding-error bound of each inexact value seen (keyed by its bits, max over producers)
    ferr: HashMap<u64, f64>,
    var_names: BTreeMap<u32, String>,
}

static ENGINE: Mutex<Option<Engine>> = Mutex::new(None);

fn lock() -> MutexGuard<'static, Option<Engine>> {
    ENGINE.lock().unwrap_or_else(|e| e.into_inner())
}

fn with<R>(f: impl FnOnce(&mut Engine) -> R) -> R {
    let mut g = lock();
    if g.is_none() {
        *g = Some(Engine::new(Config::default()));
    }
    f(g.as_mut().unwrap())
}

thread_local! {
    static IN_CATCH: RefCell<u32> = RefCell::new(0);
}

fn abort(stop: Stop) -> ! {
    panic::resume_unwind(Box::new(AbortPayload(stop)))
}

impl Engine {
    fn new(cfg: Config) -> Engine {
        Engine {
            nodes: Vec::new(),
            index: HashMap::new(),
            cfg,
            concrete: None,
            pc: Vec::new(),
            trace: Vec::new(),
            forced: Vec::new(),
            fresh: 0,
            path_nontrivial: false,
            path_oblig_labels: Vec::new(),
            div_log: Vec::new(),
            path_implied: Vec::new(),
            stub_log: Vec::new(),
            poly_stub_log: Vec::new(),
            implied_true: std::collections::HashSet::new(),
            worklist: Vec::new(),
            stats: Stats::default(),
            candidates: Vec::new(),
            control_failures: Vec::new(),
            undecided_labels: Vec::new(),
            concrete_failures: Vec::new(),
            samples: Vec::new(),
            notes: Vec::new(),
            sample_smt: None,
            solver: None,
            solver_alt: None,
            memo: HashMap::new(),
            extra_axioms: Vec::new(),
            last_panic: None,
            tolerant: false,
            ferr: HashMap::new(),
            var_names: BTreeMap::new(),
        }
    }

    fn mk(&mut self, n: Node) -> u32 {
        if let Some(&i) = self.index.get(&n) {
            return i;
        }
        let i = self.nodes.len() as u32;
        if let Node::Var(name) = &n {
            self.var_names.insert(i, name.clone());
        }
        self.nodes.push(n.clone());
        self.index.insert(n, i);
        i
    }

    fn cval_of_lit(&self, x: f64) -> Option<CVal> {
        if self.cfg.float || !x.is_finite() { Some(CVal::F(x)) } else { Rat::from_f64(x).map(CVal::R) }
    }

    fn cval(&self, s: Sym) -> Option<CVal> {
        if s.node == LIT {
            return self.cval_of_lit(s.lit);
        }
        match &self.nodes[s.node as usize] {
            Node::Const(r) => Some(CVal::R(*r)),
            Node::FConst(b) => Some(CVal::F(f64::from_bits(*b))),
            _ => None,
        }
    }

    fn cval_id(&self, id: u32) -> Option<CVal> {
        match &self.nodes[id as usize] {
            Node::Const(r) => Some(CVal::R(*r)),
            Node::FConst(b) => Some(CVal::F(f64::from_bits(*b))),
            _ => None,
        }
    }

    fn from_cval(&mut self, c: CVal) -> Sym {
        match c {
            CVal::F(x) => {
                if self.cfg.float || !x.is_finite() { Sym { node: LIT, lit: x } } else { let i = self.mk(Node::FConst(x.to_bits())); Sym { node: i, lit: 0.0 } }
            }
            CVal::R(r) => {
                if !self.cfg.float {
                    let f = r.to_f64();
                    if Rat::from_f64(f) == Some(r) {
                        return Sym { node: LIT, lit: f };
                    }
                }
                let i = self.mk(Node::Const(r));
                Sym { node: i, lit: 0.0 }
            }
        }
    }

    fn id(&mut self, s: Sym) -> u32 {
        if s.node != LIT {
            return s.node;
        }
        match self.cval_of_lit(s.lit) {
            Some(CVal::R(r)) => self.mk(Node::Const(r)),
            Some(CVal::F(x)) => self.mk(Node::FConst(x.to_bits())),
            None => self.mk(Node::FConst(s.lit.to_bits())),
        }
    }

    fn is_zero(&self, s: Sym) -> bool {
        match self.cval(s) { Some(CVal::R(r)) => r.is_zero(), _ => false }
    }
    fn is_one(&self, s: Sym) -> bool {
        match self.cval(s) { Some(CVal::R(r)) => r == Rat::ONE, _ => false }
    }

    fn err_of(&self, c: CVal) -> f64 { match c { CVal::F(x) => *self.ferr.get(&x.to_bits()).unwrap_or(&0.0), CVal::R(_) => 0.0 } }

    /// Running forward error bound (first order, unit roundoff 2^-53) of an inexact concrete result; used only to
    /// judge obligations on floats "up to rounding" - never for library decisions.
    fn note_err(&mut self, v: f64, e: f64) {
        if self.concrete.is_none() || !v.is_finite() { return; }
        // Only the harness's OWN arithmetic (the evaluation of an obligation) is forgiven its accumulated rounding.  A value
        // computed inside a library call (under `catch`) is data to be judged: it is trusted to a few ulps and no more, so a
        // result ruined by cancellation inside the library still fails the obligation it is tested against.
        let in_library = IN_CATCH.with(|c| *c.borrow() > 0);
        let e = if in_library { 4.8e-16 * v.abs() } else if e.is_finite() { e } else { f64::INFINITY };
        let slot = self.ferr.entry(v.to_bits()).or_insert(0.0);
        if e > *slot { *slot = e; }
    }

    fn fold2(&self, op: u8, a: CVal, b: CVal) -> Option<CVal> {
        match (a, b) {
            (CVal::R(x), CVal::R(y)) => {
                let r = match op {
                    b'+' => x.add(y),
                    b'-' => x.sub(y),
                    b'*' => x.mul(y),
                    b'/' => x.div(y),
                    b'M' => Some(if x.cmp(y)? == std::cmp::Ordering::Less { y } else { x }),
                    b'm' => Some(if x.cmp(y)? == std::cmp::Ordering::Less { x } else { y }),
                    _ => None,
                };
                r.map(CVal::R)
            }
            (x, y) => {
                let (x, y) = (cv_f(x), cv_f(y));
                Some(CVal::F(match op {
                    b'+' => x + y,
                    b'-' => x - y,
                    b'*' => x * y,
                    b'/' => x / y,
                    b'M' => x.max(y),
                    b'm' => x.min(y),
                    _ => return None,
                }))
            }
        }
    }

    fn nan_id(&self, i: u32) -> bool { matches!(self.cval_id(i), Some(CVal::F(x)) if x.is_nan()) }
    fn is_nan_const(&self, s: Sym) -> bool { matches!(self.cval(s), Some(CVal::F(x)) if x.is_nan()) }

    fn bin(&mut self, op: u8, a: Sym, b: Sym) -> Sym {
        // IEEE poison: NaN (e.g. returned by a user function) propagates through every operation
        if self.is_nan_const(a) || self.is_nan_const(b) { return Sym::lit(f64::NAN); }
        if let (Some(x), Some(y)) = (self.cval(a), self.cval(b)) {
            if let Some(c) = self.fold2(op, x, y) {
                if let (CVal::F(v), true) = (c, self.concrete.is_some()) {
                    let (fa, fb, ea, eb) = (cv_f(x).abs(), cv_f(y).abs(), self.err_of(x), self.err_of(y));
                    let u = 1.2e-16 * v.abs();
                    let e = match op {
                        b'+' | b'-' => ea + eb + u,
                        b'*' => fa * eb + fb * ea + ea * eb + u,
                        b'/' => if fb > eb { (ea + v.abs() * eb) / (fb - eb) + u } else { f64::INFINITY },
                        _ => ea.max(eb),
                    };
                    self.note_err(v, e);
                }
                return self.from_cval(c);
            }
            if self.concrete.is_some() {
                drop_abort(Stop::Budget("rational overflow in concrete evaluation".into()));
            }
        }
        if self.cfg.simplify && !self.cfg.float {
            match op {
                b'+' => {
                    if self.is_zero(a) { return b; }
                    if self.is_zero(b) { return a; }
                }
                b'-' => {
                    if self.is_zero(b) { return a; }
                    if self.is_zero(a) { return self.neg(b); }
                    if a.node != LIT && a.node == b.node { return Sym::lit(0.0); }
                }
                b'*' => {
                    // |x| * |x| = x * x (exact over the reals and in IEEE arithmetic alike)
                    if a.node != LIT && a.node == b.node {
                        if let Node::Abs(x) = self.nodes[a.node as usize] {
                            let xs = Sym { node: x, lit: 0.0 };
                            return self.bin(b'*', xs, xs);
                        }
                    }
                    if self.is_zero(a) || self.is_zero(b) { return Sym::lit(0.0); }
                    if self.is_one(a) { return b; }
                    if self.is_one(b) { return a; }
                }
                b'/' => {
                    if self.is_one(b) { return a; }
                    if self.is_zero(a) { return Sym::lit(0.0); }
                }
                _ => {}
            }
        }
        let (mut x, mut y) = (self.id(a), self.id(b));
        if matches!(op, b'+' | b'*' | b'M' | b'm') && x > y {
            std::mem::swap(&mut x, &mut y);
        }
        let n = match op {
            b'+' => Node::Add(x, y),
            b'-' => Node::Sub(x, y),
            b'*' => Node::Mul(x, y),
            b'/' => Node::Div(x, y),
            b'M' => Node::Max(x, y),
            b'm' => Node::Min(x, y),
            _ => unreachable!(),
        };
        let i = self.mk(n);
        Sym { node: i, lit: 0.0 }
    }

    fn neg(&mut self, a: Sym) -> Sym {
        match self.cval(a) {
            Some(CVal::R(r)) => { if let Some(n) = r.neg() { return self.from_cval(CVal::R(n)); } }
            Some(CVal::F(x)) => return self.from_cval(CVal::F(-x)),
            None => {}
        }
        if self.cfg.simplify && !self.cfg.float && a.node != LIT {
            if let Node::Neg(x) = self.nodes[a.node as usize] {
                return Sym { node: x, lit: 0.0 };
            }
        }
        let x = self.id(a);
        let i = self.mk(Node::Neg(x));
        Sym { node: i, lit: 0.0 }
    }

    fn un(&mut self, what: &'static str, a: Sym) -> Sym {
        if self.is_nan_const(a) { return Sym::lit(f64::NAN); }
        if let Some(c) = self.cval(a) {
            match (what, c) {
                ("abs", CVal::R(r)) => { if let Some(v) = r.abs() { return self.from_cval(CVal::R(v)); } }
                ("abs", CVal::F(x)) => { let e = self.err_of(c); self.note_err(x.abs(), e); return self.from_cval(CVal::F(x.abs())); }
                ("sqrt", CVal::R(r)) => {
                    // exact only for perfect squares
                    if r.n >= 0 {
                        let (sn, sd) = (isqrt(r.n), isqrt(r.d));
                        if sn * sn == r.n && sd * sd == r.d {
                            return self.from_cval(CVal::R(Rat::new(sn, sd).unwrap()));
                        }
                    }
                    if self.concrete.is_some() {
                        let v = r.to_f64().sqrt();
                        self.note_err(v, 2.4e-16 * v.abs());
                        return self.from_cval(CVal::F(v));
                    }
                }
                (_, c) if self.cfg.float || self.concrete.is_some() => {
                    let x = cv_f(c);
                    let v = match what {
                        "sqrt" => x.sqrt(), "exp" => x.exp(), "ln" => x.ln(), "sin" => x.sin(), "cos" => x.cos(),
                        "tan" => x.tan(), "sinh" => x.sinh(), "cosh" => x.cosh(), "tanh" => x.tanh(),
                        "asin" => x.asin(), "acos" => x.acos(), "atan" => x.atan(),
                        _ => f64::NAN,
                    };
                    let ea = self.err_of(c);
                    let e = match what {
                        "sqrt" => if x > 0.0 && v > 0.0 { ea / (2.0 * v) } else { ea.sqrt() },
                        "ln" => if x.abs() > ea { ea / (x.abs() - ea) } else { f64::INFINITY },
                        "exp" | "sinh" | "cosh" => (v.abs() + 1.0) * ea,
                        "tan" => (1.0 + v * v) * ea,
                        "asin" | "acos" => if x.abs() < 1.0 { ea / (1.0 - x * x).sqrt() } else { f64::INFINITY },
                        _ => ea,
                    } + 4.8e-16 * v.abs();
                    self.note_err(v, e);
                    return self.from_cval(CVal::F(v));
                }
                _ => {}
            }
        }
        let x = self.id(a);
        let n = match what {
            "abs" => Node::Abs(x),
            "sqrt" => Node::Sqrt(x),
            w => Node::Fun1(w, x),
        };
        let i = self.mk(n);
        Sym { node: i, lit: 0.0 }
    }

    fn fun2(&mut self, what: &'static str, a: Sym, b: Sym) -> Sym {
        if let (Some(x), Some(y)) = (self.cval(a), self.cval(b)) {
            if self.cfg.float || self.concrete.is_some() {
                let (ea, eb) = (self.err_of(x), self.err_of(y));
                let (x, y) = (cv_f(x), cv_f(y));
                let v = match what { "atan2" => x.atan2(y), "pow" => x.powf(y), _ => f64::NAN };
                let e = match what {
                    "atan2" => { let h = x.hypot(y); if h > ea + eb { (ea + eb) / (h - ea - eb) } else { f64::INFINITY } }
                    _ => if x.abs() > ea { v.abs() * (y.abs() * ea / (x.abs() - ea) + x.abs().ln().abs() * eb) } else { f64::INFINITY },
                } + 4.8e-16 * v.abs();
                self.note_err(v, e);
                return self.from_cval(CVal::F(v));
            }
            if what == "pow" {
                // exact folding of small non-negative integer powers
                if let (CVal::R(bx), CVal::R(e)) = (x, y) {
                    if e.d == 1 && e.n >= 0 && e.n <= 16 {
                        let mut acc = Some(Rat::ONE);
                        for _ in 0..e.n { acc = acc.and_then(|v| v.mul(bx)); }
                        if let Some(v) = acc { return self.from_cval(CVal::R(v)); }
                    }
                }
            }
        }
        let (x, y) = (self.id(a), self.id(b));
        let i = self.mk(Node::Fun2(what, x, y));
        Sym { node: i, lit: 0.0 }
    }

    /// Structurally non-negative: a sum of squares, absolute values and non-negative constants.
    fn is_sos(&self, i: u32, depth: usize) -> bool {
        if depth > 64 { return false; }
        match &self.nodes[i as usize] {
            Node::Mul(a, b) => a == b || (self.is_sos(*a, depth + 1) && self.is_sos(*b, depth + 1)),
            Node::Add(a, b) => self.is_sos(*a, depth + 1) && self.is_sos(*b, depth + 1),
            Node::Abs(_) | Node::Sqrt(_) => true,
            Node::Const(r) => r.n >= 0,
            Node::FConst(b) => f64::from_bits(*b) >= 0.0,
            _ => false,
        }
    }

    // ---------- boolean evaluation on constants ----------
    fn eval_b(&self, b: &B) -> Option<bool> {
        Some(match b {
            B::True => true,
            B::False => false,
            B::Lt(x, y) | B::Le(x, y) | B::Eq(x, y) if self.nan_id(*x) || self.nan_id(*y) => false, // every comparison with NaN is false
            B::Lt(x, y) => cmp_c(self.cval_id(*x)?, self.cval_id(*y)?)? == std::cmp::Ordering::Less,
            B::Le(x, y) => {
                let (a, b) = (self.cval_id(*x)?, self.cval_id(*y)?);
                if self.tolerant { if let (CVal::F(_), _) | (_, CVal::F(_)) = (a, b) { let (u, v) = (cv_f(a), cv_f(b)); return Some(u <= v + 1.0e-9 * (1.0 + u.abs().max(v.abs())) + 1.0e3 * (self.err_of(a) + self.err_of(b))); } }
                cmp_c(a, b)? != std::cmp::Ordering::Greater
            }
            B::Eq(x, y) => {
                if x == y { return Some(true); }
                let (a, b) = (self.cval_id(*x)?, self.cval_id(*y)?);
                // an obligation evaluated on inexact (float) values is judged up to rounding, never a library decision
                if self.tolerant { if let (CVal::F(_), _) | (_, CVal::F(_)) = (a, b) { let (u, v) = (cv_f(a), cv_f(b)); return Some((u - v).abs() <= 1.0e-9 * (1.0 + u.abs().max(v.abs())) + 1.0e3 * (self.err_of(a) + self.err_of(b))); } }
                cmp_c(a, b)? == std::cmp::Ordering::Equal
            }
            B::Not(x) => !self.eval_b(x)?,
            B::And(v) => {
                let mut all = true;
                let mut unknown = false;
                for x in v { match self.eval_b(x) { Some(false) => { all = false; break; } Some(true) => {} None => unknown = true } }
                if !all { false } else if unknown { return None } else { true }
            }
            B::Or(v) => {
                let mut any = false;
                let mut unknown = false;
                for x in v { match self.eval_b(x) { Some(true) => { any = true; break; } Some(false) => {} None => unknown = true } }
                if any { true } else if unknown { return None } else { false }
            }
        })
    }

    // ---------- numeric (f64) evaluation, used ONLY to recognise feasible branches cheaply ----------
    fn eval_f(&self, i: u32, asg: &HashMap<u32, f64>, memo: &mut HashMap<u32, f64>) -> f64 {
        if let Some(v) = memo.get(&i) { return *v; }
        let v = match &self.nodes[i as usize] {
            Node::Var(_) | Node::Fresh(_) => *asg.get(&i).unwrap_or(&0.0),
            Node::Const(r) => r.to_f64(),
            Node::FConst(b) => f64::from_bits(*b),
            Node::Add(a, b) => self.eval_f(*a, asg, memo) + self.eval_f(*b, asg, memo),
            Node::Sub(a, b) => self.eval_f(*a, asg, memo) - self.eval_f(*b, asg, memo),
            Node::Mul(a, b) => self.eval_f(*a, asg, memo) * self.eval_f(*b, asg, memo),
            Node::Div(a, b) => self.eval_f(*a, asg, memo) / self.eval_f(*b, asg, memo),
            Node::Neg(a) => -self.eval_f(*a, asg, memo),
            Node::Abs(a) => self.eval_f(*a, asg, memo).abs(),
            Node::Max(a, b) => self.eval_f(*a, asg, memo).max(self.eval_f(*b, asg, memo)),
            Node::Min(a, b) => self.eval_f(*a, asg, memo).min(self.eval_f(*b, asg, memo)),
            Node::Sqrt(a) => self.eval_f(*a, asg, memo).sqrt(),
            // the real functions themselves are a model of every axiom used for the uninterpreted symbols
            Node::Fun1(f, a) => { let x = self.eval_f(*a, asg, memo); match *f { "sin" => x.sin(), "cos" => x.cos(), "tan" => x.tan(), "sinh" => x.sinh(), "cosh" => x.cosh(), "tanh" => x.tanh(), "exp" => x.exp(), "ln" => x.ln(), "asin" => x.asin(), "acos" => x.acos(), "atan" => x.atan(), _ => f64::NAN } }
            Node::Fun2(f, a, b) => { let (x, y) = (self.eval_f(*a, asg, memo), self.eval_f(*b, asg, memo)); match *f { "atan2" => x.atan2(y), "pow" => x.powf(y), _ => f64::NAN } }
        };
        memo.insert(i, v);
        v
    }
    /// true only when the condition holds with a clear margin under the assignment
    fn holds_f(&self, b: &B, asg: &HashMap<u32, f64>, memo: &mut HashMap<u32, f64>) -> bool {
        const M: f64 = 1.0e-7;
        match b {
            B::True => true,
            B::False => false,
            B::Lt(x, y) => { let (u, v) = (self.eval_f(*x, asg, memo), self.eval_f(*y, asg, memo)); u.is_finite() && v.is_finite() && u + M * (1.0 + u.abs().max(v.abs())) < v }
            B::Le(x, y) => { let (u, v) = (self.eval_f(*x, asg, memo), self.eval_f(*y, asg, memo)); u.is_finite() && v.is_finite() && u + M * (1.0 + u.abs().max(v.abs())) < v }
            B::Eq(x, y) => x == y,
            B::Not(c) => match &**c {
                B::Lt(x, y) => { let (u, v) = (self.eval_f(*x, asg, memo), self.eval_f(*y, asg, memo)); u.is_finite() && v.is_finite() && v + M * (1.0 + u.abs().max(v.abs())) < u }
                B::Le(x, y) => { let (u, v) = (self.eval_f(*x, asg, memo), self.eval_f(*y, asg, memo)); u.is_finite() && v.is_finite() && v + M * (1.0 + u.abs().max(v.abs())) < u }
                B::Eq(x, y) => { let (u, v) = (self.eval_f(*x, asg, memo), self.eval_f(*y, asg, memo)); u.is_finite() && v.is_finite() && (u - v).abs() > M * (1.0 + u.abs().max(v.abs())) }
                B::Not(d) => self.holds_f(d, asg, memo),
                B::And(v) => v.iter().any(|x| self.holds_f(&x.clone().not(), asg, memo)),
                B::Or(v) => v.iter().all(|x| self.holds_f(&x.clone().not(), asg, memo)),
                B::True => false,
                B::False => true,
            },
            B::And(v) => v.iter().all(|x| self.holds_f(x, asg, memo)),
            B::Or(v) => v.iter().any(|x| self.holds_f(x, asg, memo)),
        }
    }
    /// Cheap sufficient test for satisfiability of a conjunction: try pseudo-random small rational points.
    /// A hit means "feasible" (up to float evaluation with margins); a miss means nothing.
    fn numeric_feasible(&mut self, bs: &[&B]) -> bool { self.numeric_model(bs).is_some() }
    fn numeric_model(&mut self, bs: &[&B]) -> Option<HashMap<u32, f64>> {
        let mut roots = Vec::new();
        for b in bs { b.roots(&mut roots); }
        let mut seen: BTreeSet<u32> = BTreeSet::new();
        let mut stack = roots;
        let mut vars = Vec::new();
        while let Some(i) = stack.pop() {
            if !seen.insert(i) { continue; }
            match &self.nodes[i as usize] {
                Node::Add(a, b) | Node::Sub(a, b) | Node::Mul(a, b) | Node::Div(a, b) | Node::Max(a, b) | Node::Min(a, b) => { stack.push(*a); stack.push(*b); }
                Node::Neg(a) | Node::Abs(a) | Node::Sqrt(a) | Node::Fun1(_, a) => stack.push(*a),
                Node::Fun2(_, a, b) => { stack.push(*a); stack.push(*b); }
                Node::Var(_) | Node::Fresh(_) => vars.push(i),
                _ => {}
            }
        }
        let mut st: u64 = 0x9E3779B97F4A7C15 ^ (self.stats.decisions.wrapping_mul(0x2545F4914F6CDD1D)) | 1;
        for trial in 0..48 {
            let mut asg = HashMap::new();
            for &v in &vars {
                st ^= st << 13; st ^= st >> 7; st ^= st << 17;
                let k = (st >> 33) % 17;
                let val = if trial % 3 == 0 { (k as f64 - 8.0) / 2.0 } else if trial % 3 == 1 { (k as f64 - 8.0) * 0.37 + 0.11 } else { ((k as f64) - 8.0).powi(3) / 16.0 + 0.03 };
                asg.insert(v, val);
            }
            let mut memo = HashMap::new();
            if bs.iter().all(|b| self.holds_f(b, &asg, &mut memo)) { self.stats.q_numeric += 1; return Some(asg); }
        }
        None
    }

    // ---------- SMT emission ----------
    fn emit(&self, bs: &[&B], negate_last: bool, timeout_ms: u64, want_ints: Option<i64>) -> (String, Vec<u32>) {
        let mut roots = Vec::new();
        for b in bs { b.roots(&mut roots); }
        // reachable set
        let mut seen: BTreeSet<u32> = BTreeSet::new();
        let mut stack = roots;
        while let Some(i) = stack.pop() {
            if !seen.insert(i) { continue; }
            match &self.nodes[i as usize] {
                Node::Add(a, b) | Node::Sub(a, b) | Node::Mul(a, b) | Node::Div(a, b) | Node::Max(a, b) | Node::Min(a, b) | Node::Fun2(_, a, b) => { stack.push(*a); stack.push(*b); }
                Node::Neg(a) | Node::Abs(a) | Node::Sqrt(a) | Node::Fun1(_, a) => stack.push(*a),
                _ => {}
            }
        }
        let mut s = String::new();
        s.push_str("(reset)\n");
        s.push_str(&format!("(set-option :timeout {})\n", timeout_ms));
        // (VERIF_SEED drives the harness's own subset choices and searches only; the solver runs with its default
        //  seeds so that verdicts do not depend on the seed)
        let mut funs: BTreeSet<(&'static str, usize)> = BTreeSet::new();
        for &i in &seen {
            match &self.nodes[i as usize] {
                Node::Fun1(f, _) => { funs.insert((f, 1)); }
                Node::Fun2(f, _, _) => { funs.insert((f, 2)); }
                _ => {}
            }
        }
        let libm1 = ["sin", "cos", "sinh", "cosh", "exp", "ln"];
        if !funs.is_empty() {
            for f in libm1 { funs.insert((f, 1)); }
            s.push_str("(declare-const pi Real)\n(assert (< 3.14159265358979323 pi))\n(assert (< pi 3.14159265358979324))\n");
        }
        for (f, ar) in &funs {
            s.push_str(&format!("(declare-fun uf_{} ({}) Real)\n", f, if *ar == 1 { "Real" } else { "Real Real" }));
        }
        let mut vars = Vec::new();
        let named = self.cfg.named_constants && !funs.is_empty();
        let nm = |i: u32| -> String {
            match &self.nodes[i as usize] {
                Node::Const(r) => {
                    if named {
                        // a literal that is the double nearest to pi, pi/2, ... stands for that number
                        for (k, txt) in [(1.0, "pi"), (0.5, "(/ pi 2.0)"), (0.25, "(/ pi 4.0)"), (2.0, "(* 2.0 pi)"), (-1.0, "(- pi)"), (-0.5, "(- (/ pi 2.0))")] {
                            if Rat::from_f64(std::f64::consts::PI * k) == Some(*r) { return txt.to_string(); }
                        }
                    }
                    r.smt()
                }
                Node::FConst(b) => {
                    let x = f64::from_bits(*b);
                    match Rat::from_f64(x) { Some(r) => r.smt(), None => format!("fconst_{}", b) }
                }
                Node::Var(_) => format!("v{}", i),
                _ => format!("n{}", i),
            }
        };
        let mut side = String::new();
        for &i in &seen {
            match &self.nodes[i as usize] {
                Node::Var(name) => {
                    s.push_str(&format!("(declare-const v{} Real) ; {}\n", i, name));
                    vars.push(i);
                }
                Node::Fresh(_) => { s.push_str(&format!("(declare-const n{} Real)\n", i)); }
                Node::Const(_) => {}
                Node::FConst(b) => {
                    if Rat::from_f64(f64::from_bits(*b)).is_none() {
                        s.push_str(&format!("(declare-const fconst_{} Real)\n", b));
                    }
                }
                Node::Add(a, b) => s.push_str(&format!("(define-fun n{} () Real (+ {} {}))\n", i, nm(*a), nm(*b))),
                Node::Sub(a, b) => s.push_str(&format!("(define-fun n{} () Real (- {} {}))\n", i, nm(*a), nm(*b))),
                Node::Mul(a, b) => s.push_str(&format!("(define-fun n{} () Real (* {} {}))\n", i, nm(*a), nm(*b))),
                Node::Neg(a) => s.push_str(&format!("(define-fun n{} () Real (- {}))\n", i, nm(*a))),
                Node::Abs(a) => s.push_str(&format!("(define-fun n{} () Real (ite (>= {} 0.0) {} (- {})))\n", i, nm(*a), nm(*a), nm(*a))),
                Node::Max(a, b) => s.push_str(&format!("(define-fun n{} () Real (ite (>= {} {}) {} {}))\n", i, nm(*a), nm(*b), nm(*a), nm(*b))),
                Node::Min(a, b) => s.push_str(&format!("(define-fun n{} () Real (ite (<= {} {}) {} {}))\n", i, nm(*a), nm(*b), nm(*a), nm(*b))),
                Node::Div(a, b) => {
                    if self.cfg.purify_div {
                        s.push_str(&format!("(declare-const n{} Real)\n", i));
                        side.push_str(&format!("(assert (= (* n{} {}) {}))\n(assert (not (= {} 0.0)))\n", i, nm(*b), nm(*a), nm(*b)));
                    } else {
                        s.push_str(&format!("(define-fun n{} () Real (/ {} {}))\n", i, nm(*a), nm(*b)));
                    }
                }
                Node::Sqrt(a) => {
                    s.push_str(&format!("(declare-const n{} Real)\n", i));
                    side.push_str(&format!("(assert (>= n{} 0.0))\n(assert (= (* n{} n{}) {}))\n", i, i, i, nm(*a)));
                }
                Node::Fun1(f, a) => s.push_str(&format!("(define-fun n{} () Real (uf_{} {}))\n", i, f, nm(*a))),
                Node::Fun2(f, a, b) => s.push_str(&format!("(define-fun n{} () Real (uf_{} {} {}))\n", i, f, nm(*a), nm(*b))),
            }
        }
        s.push_str(&side);
        if !funs.is_empty() { s.push_str(&self.libm_axioms(&seen, &nm)); }
        // redundant lemmas for complex division: when u = (a c + b d)/(c^2+d^2) and v = (b c - a d)/(c^2+d^2)
        // both occur, then (u + i v)(c + i d) = a + i b, i.e. u c - v d = a and u d + v c = b.
        // (consequences of the two definitions and c^2+d^2 != 0; they keep the queries bilinear)
        if self.cfg.purify_div {
            let mul = |i: u32| -> Option<(u32, u32)> { if let Node::Mul(x, y) = &self.nodes[i as usize] { Some((*x, *y)) } else { None } };
            for &i in &seen {
                if let Node::Div(nr, den) = &self.nodes[i as usize] {
                    let (m1, m2) = match &self.nodes[*den as usize] { Node::Add(x, y) => (*x, *y), _ => continue };
                    let (c, d) = match (mul(m1), mul(m2)) { (Some((c1, c2)), Some((d1, d2))) if c1 == c2 && d1 == d2 => (c1, d1), _ => continue };
                    let (p1, p2) = match &self.nodes[*nr as usize] { Node::Add(x, y) => (*x, *y), _ => continue };
                    let (q1, q2) = match (mul(p1), mul(p2)) { (Some(a), Some(b)) => (a, b), _ => continue };
                    for (cc, dd) in [(c, d), (d, c)] {
                        for (x, y) in [(q1, q2), (q2, q1)] {
                            // x = a*cc, y = b*dd
                            let a = if x.0 == cc { x.1 } else if x.1 == cc { x.0 } else { continue };
                            let b = if y.0 == dd { y.1 } else if y.1 == dd { y.0 } else { continue };
                            // partner: (b*cc - a*dd)/den
                            let mk_mul = |u: u32, v: u32| self.index.get(&Node::Mul(u.min(v), u.max(v))).copied();
                            let (bc, ad) = match (mk_mul(b, cc), mk_mul(a, dd)) { (Some(p), Some(q)) => (p, q), _ => continue };
                            let sub = match self.index.get(&Node::Sub(bc, ad)) { Some(t) => *t, None => continue };
                            let v = match self.index.get(&Node::Div(sub, *den)) { Some(t) => *t, None => continue };
                            if !seen.contains(&v) { continue; }
                            s.push_str(&format!("(assert (= (- (* n{} {}) (* n{} {})) {}))\n(assert (= (+ (* n{} {}) (* n{} {})) {}))\n", i, nm(cc), v, nm(dd), nm(a), i, nm(dd), v, nm(cc), nm(b)));
                        }
                    }
                }
            }
        }
        // axioms for the uninterpreted real power function, instantiated on the occurring applications
        // (all of them true statements about x^y on the reals)
        let pows: Vec<(u32, u32, u32)> = seen.iter().filter_map(|&i| if let Node::Fun2("pow", x, y) = &self.nodes[i as usize] { Some((i, *x, *y)) } else { None }).collect();
        for &(i, x, y) in &pows {
            s.push_str(&format!("(assert (=> (and (= {} 0.0) (> {} 0.0)) (= n{} 0.0)))\n", nm(x), nm(y), i));
            s.push_str(&format!("(assert (=> (= {} 1.0) (= n{} 1.0)))\n", nm(x), i));
            s.push_str(&format!("(assert (=> (> {} 0.0) (> n{} 0.0)))\n", nm(x), i));
            s.push_str(&format!("(assert (=> (= {} 1.0) (= n{} {})))\n", nm(y), i, nm(x)));
            // constant exponents -1, -1/2, 1/2, 2, -2 on a positive base: x^-1 x = 1, (x^-1/2)^2 x = 1, (x^1/2)^2 = x, x^2 = x x, x^-2 x x = 1
            if let Node::Const(r) = &self.nodes[y as usize] {
                let (xs, n) = (nm(x), format!("n{}", i));
                if *r == Rat::int(-1) { s.push_str(&format!("(assert (=> (> {} 0.0) (= (* {} {}) 1.0)))\n", xs, n, xs)); }
                else if *r == Rat::new(-1, 2).unwrap() { s.push_str(&format!("(assert (=> (> {} 0.0) (= (* {} (* {} {})) 1.0)))\n", xs, n, n, xs)); }
                else if *r == Rat::new(1, 2).unwrap() { s.push_str(&format!("(assert (=> (>= {} 0.0) (and (>= {} 0.0) (= (* {} {}) {}))))\n", xs, n, n, n, xs)); }
                else if *r == Rat::int(2) { s.push_str(&format!("(assert (= {} (* {} {})))\n", n, xs, xs)); }
                else if *r == Rat::int(-2) { s.push_str(&format!("(assert (=> (> {} 0.0) (= (* {} (* {} {})) 1.0)))\n", xs, n, xs, xs)); }
            }
        }
        for &(i1, x1, y1) in &pows { for &(i2, x2, y2) in &pows {
            if i1 != i2 && y1 == y2 {
                s.push_str(&format!("(assert (=> (and (<= 0.0 {}) (< {} {}) (> {} 0.0)) (< n{} n{})))\n", nm(x1), nm(x1), nm(x2), nm(y1), i1, i2));
            }
        } }
        if let Some(bound) = want_ints {
            for &v in &vars {
                s.push_str(&format!("(declare-const iv{} Int)\n(assert (= v{} (to_real iv{})))\n(assert (and (<= (- {}) iv{}) (<= iv{} {})))\n", v, v, v, bound, v, v, bound));
            }
        }
        let n = bs.len();
        for (k, b) in bs.iter().enumerate() {
            let t = self.smt_b(b, &nm);
            if negate_last && k + 1 == n {
                s.push_str(&format!("(assert (not {}))\n", t));
            } else {
                s.push_str(&format!("(assert {})\n", t));
            }
        }
        (s, vars)
    }

    /// Axioms about the real elementary functions, instantiated on the occurring applications and (recursively)
    /// on the structure of their arguments.  Every formula is a true statement about sin, cos, sinh, cosh, exp,
    /// ln, atan2 on the reals; the functions themselves stay uninterpreted.  (Listed in DESIGN.md / evidence.)
    fn libm_axioms(&self, seen: &BTreeSet<u32>, nm: &dyn Fn(u32) -> String) -> String {
        // an argument is (text, optional node id whose structure can be unfolded further)
        #[derive(Clone, PartialEq, Eq, PartialOrd, Ord)]
        enum Fam { Trig, Hyp }
        let mut out = String::new();
        let mut done: BTreeSet<(Fam, String)> = BTreeSet::new();
        let mut work: Vec<(Fam, String, Option<u32>)> = Vec::new();
        for &i in seen.iter() {
            match &self.nodes[i as usize] {
                Node::Fun1(f, a) => match *f {
                    "sin" | "cos" => work.push((Fam::Trig, nm(*a), Some(*a))),
                    "sinh" | "cosh" | "exp" => work.push((Fam::Hyp, nm(*a), Some(*a))),
                    "ln" => {
                        let r = nm(*a);
                        out.push_str(&format!("(assert (=> (> {} 0.0) (= (uf_exp (uf_ln {})) {})))\n", r, r, r));
                        out.push_str(&format!("(assert (=> (= {} 1.0) (= (uf_ln {}) 0.0)))\n", r, r));
                        out.push_str(&format!("(assert (=> (> {} 1.0) (> (uf_ln {}) 0.0)))\n(assert (=> (and (> {} 0.0) (< {} 1.0)) (< (uf_ln {}) 0.0)))\n", r, r, r, r, r));
                        work.push((Fam::Hyp, format!("(uf_ln {})", r), None));
                        // ln(sqrt(q)) = ln(q)/2 and ln(q*q') ... only the square-root link is needed (modulus)
                        if let Node::Sqrt(q) = &self.nodes[*a as usize] { out.push_str(&format!("(assert (=> (> {} 0.0) (= (* 2.0 (uf_ln {})) (uf_ln {}))))\n", nm(*q), r, nm(*q))); work.push((Fam::Hyp, format!("(uf_ln {})", nm(*q)), None)); }
                    }
                    _ => {}
                },
                Node::Fun2("atan2", y, x) => {
                    let (t, ys, xs) = (format!("n{}", i), nm(*y), nm(*x));
                    let r = format!("r_atan2_{}", i);
                    out.push_str(&format!("(declare-const {} Real)\n(assert (>= {} 0.0))\n(assert (= (* {} {}) (+ (* {} {}) (* {} {}))))\n", r, r, r, r, xs, xs, ys, ys));
                    out.push_str(&format!("(assert (= (* {} (uf_cos {})) {}))\n(assert (= (* {} (uf_sin {})) {}))\n", r, t, xs, r, t, ys));
                    out.push_str(&format!("(assert (and (< (- pi) {}) (<= {} pi)))\n", t, t));
                    out.push_str(&format!("(assert (=> (> {} 0.0) (and (> {} 0.0) (< {} pi))))\n(assert (=> (< {} 0.0) (and (< {} 0.0) (> {} (- pi)))))\n", ys, t, t, ys, t, t));
                    out.push_str(&format!("(assert (=> (and (= {} 0.0) (>= {} 0.0)) (= {} 0.0)))\n(assert (=> (and (= {} 0.0) (< {} 0.0)) (= {} pi)))\n", ys, xs, t, ys, xs, t));
                    out.push_str(&format!("(assert (=> (> {} 0.0) (and (< {} (/ pi 2.0)) (> {} (- (/ pi 2.0))))))\n", xs, t, t));
                    out.push_str(&format!("(assert (=> (and (= {} 0.0) (> {} 0.0)) (= {} (/ pi 2.0))))\n(assert (=> (and (= {} 0.0) (< {} 0.0)) (= {} (- (/ pi 2.0)))))\n", xs, ys, t, xs, ys, t));
                    out.push_str(&format!("(assert (=> (and (< {} 0.0) (> {} 0.0)) (> {} (/ pi 2.0))))\n(assert (=> (and (< {} 0.0) (< {} 0.0)) (< {} (- (/ pi 2.0)))))\n", xs, ys, t, xs, ys, t));
                    work.push((Fam::Trig, t, Some(i)));
                }
                _ => {}
            }
        }
        let mut guard = 0;
        while let Some((fam, u, id)) = work.pop() {
            guard += 1;
            if guard > 400 { break; }
            if !done.insert((fam.clone(), u.clone())) { continue; }
            let (k1, k2) = if fam == Fam::Trig { ("uf_sin", "uf_cos") } else { ("uf_sinh", "uf_cosh") };
            let (f1, f2) = (format!("({} {})", k1, u), format!("({} {})", k2, u));
            if fam == Fam::Trig {
                out.push_str(&format!("(assert (= (+ (* {} {}) (* {} {})) 1.0))\n", f1, f1, f2, f2));
            } else {
                let (e, em) = (format!("(uf_exp {})", u), format!("(uf_exp (- {}))", u));
                out.push_str(&format!("(assert (= (- (* {} {}) (* {} {})) 1.0))\n(assert (>= {} 1.0))\n", f2, f2, f1, f1, f2));
                out.push_str(&format!("(assert (> {} 0.0))\n(assert (> {} 0.0))\n(assert (= (* {} {}) 1.0))\n", e, em, e, em));
                out.push_str(&format!("(assert (= (* 2.0 {}) (+ {} {})))\n(assert (= (* 2.0 {}) (- {} {})))\n", f2, e, em, f1, e, em));
            }
            // structure of the argument
            let id = match id { Some(i) => i, None => continue };
            let sub = |a: u32| -> (String, Option<u32>) { (nm(a), Some(a)) };
            match &self.nodes[id as usize] {
                Node::Const(r) if r.is_zero() => {
                    out.push_str(&format!("(assert (= {} 0.0))\n(assert (= {} 1.0))\n", f1, f2));
                    if fam == Fam::Hyp { out.push_str(&format!("(assert (= (uf_exp {}) 1.0))\n", u)); }
                }
                Node::Const(_) if fam == Fam::Trig && u.contains("pi") => {
                    // named constants (cfg.named_constants): the exact values of sin and cos at pi/2, pi, 2 pi and their negatives
                    let vals = match u.as_str() {
                        "(/ pi 2.0)" => Some(("1.0", "0.0")), "(- (/ pi 2.0))" => Some(("(- 1.0)", "0.0")),
                        "pi" | "(- pi)" => Some(("0.0", "(- 1.0)")), "(* 2.0 pi)" => Some(("0.0", "1.0")), _ => None };
                    if let Some((sv, cv)) = vals { out.push_str(&format!("(assert (= {} {}))\n(assert (= {} {}))\n", f1, sv, f2, cv)); }
                }
                Node::Neg(a) => {
                    let (au, aid) = sub(*a);
                    out.push_str(&format!("(assert (= {} (- ({} {}))))\n(assert (= {} ({} {})))\n", f1, k1, au, f2, k2, au));
                    if fam == Fam::Hyp { out.push_str(&format!("(assert (= (* (uf_exp {}) (uf_exp {})) 1.0))\n", u, au)); }
                    work.push((fam.clone(), au, aid));
                }
                Node::Add(a, b) | Node::Sub(a, b) => {
                    let minus = matches!(&self.nodes[id as usize], Node::Sub(..));
                    let ((au, aid), (bu, bid)) = (sub(*a), sub(*b));
                    let (sa, ca, sb, cb) = (format!("({} {})", k1, au), format!("({} {})", k2, au), format!("({} {})", k1, bu), format!("({} {})", k2, bu));
                    // sin(a+-b) = sa cb +- ca sb ; cos(a+-b) = ca cb -+ sa sb ; sinh/cosh likewise with + in cosh
                    let sg = if minus { "-" } else { "+" };
                    let cg = if fam == Fam::Trig { if minus { "+" } else { "-" } } else { if minus { "-" } else { "+" } };
                    out.push_str(&format!("(assert (= {} ({} (* {} {}) (* {} {}))))\n", f1, sg, sa, cb, ca, sb));
                    out.push_str(&format!("(assert (= {} ({} (* {} {}) (* {} {}))))\n", f2, cg, ca, cb, sa, sb));
                    if fam == Fam::Hyp {
                        if minus { out.push_str(&format!("(assert (= (* (uf_exp {}) (uf_exp {})) (uf_exp {})))\n", u, bu, au)); }
                        else { out.push_str(&format!("(assert (= (uf_exp {}) (* (uf_exp {}) (uf_exp {}))))\n", u, au, bu)); }
                    }
                    work.push((fam.clone(), au, aid));
                    work.push((fam.clone(), bu, bid));
                }
                Node::Mul(a, b) => {
                    // constant * t  for the constants 1/2, 2, -1
                    let (c, t) = if let Node::Const(r) = &self.nodes[*a as usize] { (Some(*r), *b) } else if let Node::Const(r) = &self.nodes[*b as usize] { (Some(*r), *a) } else { (None, *a) };
                    if let Some(c) = c {
                        let (tu, tid) = sub(t);
                        let (st, ct) = (format!("({} {})", k1, tu), format!("({} {})", k2, tu));
                        if c == Rat::new(1, 2).unwrap() && fam == Fam::Trig {
                            out.push_str(&format!("(assert (= (* 2.0 (* {} {})) (+ 1.0 {})))\n(assert (= (* 2.0 (* {} {})) (- 1.0 {})))\n(assert (= (* 2.0 (* {} {})) {}))\n", f2, f2, ct, f1, f1, ct, f1, f2, st));
                            // for an angle in (-pi, pi]: cos(t/2) >= 0 and sin(t/2) has the sign of t
                            out.push_str(&format!("(assert (=> (and (< (- pi) {}) (<= {} pi)) (and (>= {} 0.0) (=> (>= {} 0.0) (>= {} 0.0)) (=> (<= {} 0.0) (<= {} 0.0)))))\n", tu, tu, f2, tu, f1, tu, f1));
                            work.push((fam.clone(), tu, tid));
                        } else if c == Rat::new(1, 2).unwrap() && fam == Fam::Hyp {
                            // cosh t = 2 cosh^2(t/2) - 1 = 2 sinh^2(t/2) + 1, sinh t = 2 sinh(t/2) cosh(t/2)
                            out.push_str(&format!("(assert (= (* 2.0 (* {} {})) (+ {} 1.0)))\n(assert (= (* 2.0 (* {} {})) (- {} 1.0)))\n(assert (= (* 2.0 (* {} {})) {}))\n", f2, f2, ct, f1, f1, ct, f1, f2, st));
                            work.push((fam.clone(), tu, tid));
                        } else if c == Rat::int(2) {
                            let cg = if fam == Fam::Trig { "-" } else { "+" };
                            out.push_str(&format!("(assert (= {} (* 2.0 (* {} {}))))\n(assert (= {} ({} (* {} {}) (* {} {}))))\n", f1, st, ct, f2, cg, ct, ct, st, st));
                            work.push((fam.clone(), tu, tid));
                        } else if c == Rat::int(-1) {
                            out.push_str(&format!("(assert (= {} (- {})))\n(assert (= {} {}))\n", f1, st, f2, ct));
                            work.push((fam.clone(), tu, tid));
                        } else if c == Rat::int(-2) {
                            // sin(-2t) = -2 sin t cos t, cos(-2t) = cos^2 t - sin^2 t (hyperbolic: cosh^2 + sinh^2)
                            let cg = if fam == Fam::Trig { "-" } else { "+" };
                            out.push_str(&format!("(assert (= {} (- (* 2.0 (* {} {})))))\n(assert (= {} ({} (* {} {}) (* {} {}))))\n", f1, st, ct, f2, cg, ct, ct, st, st));
                            work.push((fam.clone(), tu, tid));
                        }
                    }
                }
                _ => {}
            }
        }
        out
    }

    fn smt_b(&self, b: &B, nm: &dyn Fn(u32) -> String) -> String {
        match b {
            B::True => "true".into(),
            B::False => "false".into(),
            B::Lt(x, y) => format!("(< {} {})", nm(*x), nm(*y)),
            B::Le(x, y) => format!("(<= {} {})", nm(*x), nm(*y)),
            B::Eq(x, y) => format!("(= {} {})", nm(*x), nm(*y)),
            B::Not(x) => format!("(not {})", self.smt_b(x, nm)),
            B::And(v) => if v.is_empty() { "true".into() } else { format!("(and {})", v.iter().map(|x| self.smt_b(x, nm)).collect::<Vec<_>>().join(" ")) },
            B::Or(v) => if v.is_empty() { "false".into() } else { format!("(or {})", v.iter().map(|x| self.smt_b(x, nm)).collect::<Vec<_>>().join(" ")) },
        }
    }

    /// Check satisfiability of the conjunction of `bs` (last one negated if `negate_last`).
    fn check(&mut self, bs: &[&B], negate_last: bool, timeout_ms: u64, want_model: bool, ints: Option<i64>) -> (Verdict, Option<BTreeMap<String, String>>) {
        let (text, vars) = self.emit(bs, negate_last, timeout_ms, ints);
        let key = text.clone();
        if let Some((v, m)) = self.memo.get(&key) {
            if !(want_model && *v == Verdict::Sat && m.is_none()) {
                self.stats.q_memo += 1;
                return (*v, m.clone());
            }
        }
        let t0 = Instant::now();
        if self.solver.is_none() {
            self.solver = Solver::spawn(&self.cfg.z3);
        }
        let getv = if want_model && !vars.is_empty() {
            Some(format!("(get-value ({}))", vars.iter().map(|v| format!("v{}", v)).collect::<Vec<_>>().join(" ")))
        } else { None };
        // portfolio: the two z3 releases differ by orders of magnitude on individual nonlinear queries
        // (in both directions), so: short slice on the primary, full cap on the alternate, full cap on the primary
        let slice = timeout_ms.min(700);
        let mut verdict = Verdict::Unknown;
        let mut model_txt = None;
        for stage in 0..3 {
            if verdict != Verdict::Unknown { break; }
            let (use_alt, to) = match stage { 0 => (false, slice), 1 => (true, timeout_ms), _ => (false, timeout_ms) };
            if stage == 2 && timeout_ms <= slice { break; }
            if use_alt && self.cfg.z3_alt.is_empty() { continue; }
            let stage_text = text.replacen(&format!("(set-option :timeout {})", timeout_ms), &format!("(set-option :timeout {})", to), 1);
            let slot = if use_alt { &mut self.solver_alt } else { &mut self.solver };
            if slot.is_none() { *slot = Solver::spawn(if use_alt { &self.cfg.z3_alt } else { &self.cfg.z3 }); }
            if let Some(sv) = slot.as_mut() {
                let (v, m) = sv.query(&stage_text, getv.as_deref(), to);
                if sv.dead { *slot = None; }
                verdict = v;
                model_txt = m;
            }
        }
        self.stats.solver_s += t0.elapsed().as_secs_f64();
        if std::env::var("VERIF_DEBUG").is_ok() && t0.elapsed().as_secs_f64() > 0.5 { eprintln!("slow query: {:.1}s {:?} timeout={} asserts={} vars={}", t0.elapsed().as_secs_f64(), verdict, timeout_ms, text.matches("(assert").count(), vars.len()); }
        if verdict == Verdict::Unknown { if let Ok(d) = std::env::var("VERIF_DUMP") { let _ = std::fs::write(format!("{}/unknown-{}-{}.smt2", d, std::process::id(), self.stats.q_unknown), &text); } }
        match verdict {
            Verdict::Sat => self.stats.q_sat += 1,
            Verdict::Unsat => self.stats.q_unsat += 1,
            Verdict::Unknown => self.stats.q_unknown += 1,
        }
        let model = model_txt.map(|t| {
            let mut m = BTreeMap::new();
            for (k, v) in parse_model(&t) {
                if let Some(idtxt) = k.strip_prefix('v') {
                    if let Ok(i) = idtxt.parse::<u32>() {
                        if let Some(name) = self.var_names.get(&i) { m.insert(name.clone(), v); }
                    }
                }
            }
            m
        });
        self.memo.insert(key, (verdict, model.clone()));
        (verdict, model)
    }
}

fn drop_abort(stop: Stop) -> ! {
    // NOTE: callers must not hold the engine lock across this; `bin` is called under
    // the lock, so we poison-proof by using unwrap_or_else(into_inner) everywhere.
    abort(stop)
}

fn isqrt(n: i128) -> i128 {
    if n < 2 { return n.max(0); }
    let mut x = (n as f64).sqrt() as i128;
    while x * x > n { x -= 1; }
    while (x + 1) * (x + 1) <= n { x += 1; }
    x
}

fn cv_f(c: CVal) -> f64 {
    match c { CVal::R(r) => r.to_f64(), CVal::F(x) => x }
}

fn cmp_c(a: CVal, b: CVal) -> Option<std::cmp::Ordering> {
    match (a, b) {
        (CVal::R(x), CVal::R(y)) => x.cmp(y),
        (x, y) => cv_f(x).partial_cmp(&cv_f(y)),
    }
}

// ---------------------------------------------------------------------------
// Solver process
// ---------------------------------------------------------------------------

struct Solver {
    child: Child,
    stdin: ChildStdin,
    rx: Receiver<String>,
    dead: bool,
}

impl Solver {
    fn spawn(bin: &str) -> Option<Solver> {
        let mut child = Command::new(bin).arg("-in").stdin(Stdio::piped()).stdout(Stdio::piped()).stderr(Stdio::null()).spawn().ok()?;
        let stdin = child.stdin.take()?;
        let stdout = child.stdout.take()?;
        let (tx, rx) = channel();
        std::thread::spawn(move || {
            let r = BufReader::new(stdout);
            for line in r.lines() {
                match line { Ok(l) => { if tx.send(l).is_err() { break; } } Err(_) => break }
            }
        });
        Some(Solver { child, stdin, rx, dead: false })
    }

    fn read_until_marker(&mut self, marker: &str, deadline: Instant) -> Option<Vec<String>> {
        let mut out = Vec::new();
        loop {
            let now = Instant::now();
            if now >= deadline { return None; }
            match self.rx.recv_timeout(deadline - now) {
                Ok(l) => {
                    if l.trim() == marker { return Some(out); }
                    out.push(l);
                }
                Err(_) => return None,
            }
        }
    }

    fn kill(&mut self) {
        let _ = self.child.kill();
        let _ = self.child.wait();
        self.dead = true;
    }

    fn query(&mut self, text: &str, getv: Option<&str>, timeout_ms: u64) -> (Verdict, Option<String>) {
        if self.dead { return (Verdict::Unknown, None); }
        let payload = format!("{}(check-sat)\n(echo \"<<END>>\")\n", text);
        if self.stdin.write_all(payload.as_bytes()).is_err() || self.stdin.flush().is_err() { self.kill(); return (Verdict::Unknown, None); }
        let deadline = Instant::now() + Duration::from_millis(timeout_ms + 3000);
        let lines = match self.read_until_marker("<<END>>", deadline) { Some(l) => l, None => { self.kill(); return (Verdict::Unknown, None); } };
        let mut verdict = Verdict::Unknown;
        let mut err = false;
        for l in &lines {
            let t = l.trim();
            if t.starts_with("(error") { err = true; }
            if t == "sat" { verdict = Verdict::Sat; }
            if t == "unsat" { verdict = Verdict::Unsat; }
        }
        if err { return (Verdict::Unknown, None); }
        if verdict == Verdict::Sat {
            if let Some(g) = getv {
                let payload = format!("{}\n(echo \"<<END>>\")\n", g);
                if self.stdin.write_all(payload.as_bytes()).is_err() || self.stdin.flush().is_err() { self.kill(); return (verdict, None); }
                let deadline = Instant::now() + Duration::from_millis(5000);
                match self.read_until_marker("<<END>>", deadline) {
                    Some(l) => return (verdict, Some(l.join("\n"))),
                    None => { self.kill(); return (verdict, None); }
                }
            }
        }
        (verdict, None)
    }
}

impl Drop for Solver {
    fn drop(&mut self) { let _ = self.child.kill(); let _ = self.child.wait(); }
}

/// Parse `((v1 val) (v2 val) ...)` into (name, value-text) where value-text is
/// "p/q" for exact rationals or "~decimal" for algebraic numbers.
fn parse_model(t: &str) -> Vec<(String, String)> {
    #[derive(Debug)]
    enum S { A(String), L(Vec<S>) }
    fn parse(tokens: &[String], pos: &mut usize) -> Option<S> {
        if *pos >= tokens.len() { return None; }
        let t = &tokens[*pos];
        *pos += 1;
        if t == "(" {
            let mut v = Vec::new();
            while *pos < tokens.len() && tokens[*pos] != ")" { v.push(parse(tokens, pos)?); }
            *pos += 1;
            Some(S::L(v))
        } else { Some(S::A(t.clone())) }
    }
    fn val(s: &S) -> Option<Rat> {
        match s {
            S::A(a) => Rat::parse(a),
            S::L(v) => {
                let op = match v.get(0)? { S::A(a) => a.as_str(), _ => return None };
                match (op, v.len()) {
                    ("-", 2) => val(&v[1])?.neg(),
                    ("/", 3) => val(&v[1])?.div(val(&v[2])?),
                    ("to_real", 2) => val(&v[1]),
                    _ => None,
                }
            }
        }
    }
    let mut tokens = Vec::new();
    let mut cur = String::new();
    for ch in t.chars() {
        match ch {
            '(' | ')' => { if !cur.is_empty() { tokens.push(std::mem::take(&mut cur)); } tokens.push(ch.to_string()); }
            c if c.is_whitespace() => { if !cur.is_empty() { tokens.push(std::mem::take(&mut cur)); } }
            c => cur.push(c),
        }
    }
    let mut pos = 0;
    let mut out = Vec::new();
    if let Some(S::L(items)) = parse(&tokens, &mut pos) {
        for it in items {
            if let S::L(kv) = it {
                if kv.len() == 2 {
                    if let S::A(k) = &kv[0] {
                        match val(&kv[1]) {
                            Some(r) => out.push((k.clone(), r.show())),
                            None => out.push((k.clone(), format!("~{:?}", kv[1]))),
                        }
                    }
                }
            }
        }
    }
    out
}

// ---------------------------------------------------------------------------
// Public API on Sym
// ---------------------------------------------------------------------------

impl Sym {
    pub const EPSILON: Sym = Sym { node: LIT, lit: f64::EPSILON };
    pub const MAX: Sym = Sym { node: LIT, lit: f64::MAX };
    pub const MIN: Sym = Sym { node: LIT, lit: f64::MIN };
    pub const MIN_POSITIVE: Sym = Sym { node: LIT, lit: f64::MIN_POSITIVE };
    pub const INFINITY: Sym = Sym { node: LIT, lit: f64::INFINITY };
    pub const NAN: Sym = Sym { node: LIT, lit: f64::NAN };

    pub const fn lit(x: f64) -> Sym { Sym { node: LIT, lit: x } }
    pub fn from_usize(n: usize) -> Sym { Sym::lit(n as f64) }
    pub fn cast_from<T: CastF64>(n: T) -> Sym { Sym::lit(n.cast_f64()) }
    pub fn from_isize(n: isize) -> Sym { Sym::lit(n as f64) }
    pub fn from_i32(n: i32) -> Sym { Sym::lit(n as f64) }
    pub fn rat(n: i128, d: i128) -> Sym { with(|e| e.from_cval(CVal::R(Rat::new(n, d).expect("rat")))) }

    /// A named input variable (bound to a value in concrete/replay mode).
    pub fn var(name: &str) -> Sym {
        with(|e| {
            if let Some(c) = &e.concrete {
                match c.get(name) {
                    Some(v) => { let v = *v; return e.from_cval(v); }
                    None => { return e.from_cval(CVal::R(Rat::ZERO)); }
                }
            }
            let i = e.mk(Node::Var(name.to_string()));
            Sym { node: i, lit: 0.0 }
        })
    }

    /// A fresh, otherwise unconstrained value (models "any function result").
    /// Numbered in creation order within the path so re-executions agree.
    pub fn fresh(tag: &str) -> Sym {
        let k = with(|e| { let k = e.fresh; e.fresh += 1; k });
        Sym::var(&format!("{}#{}", tag, k))
    }

    pub fn id(self) -> u32 { with(|e| e.id(self)) }
    pub fn is_const(self) -> bool { with(|e| e.cval(self).is_some()) }
    pub fn const_val(self) -> Option<CVal> { with(|e| e.cval(self)) }
    pub fn same(self, o: Sym) -> bool { self.id() == o.id() }

    fn bin(self, op: u8, o: Sym) -> Sym { with(|e| e.bin(op, self, o)) }

    pub fn abs(self) -> Sym { with(|e| e.un("abs", self)) }
    pub fn max(self, o: Sym) -> Sym { self.bin(b'M', o) }
    pub fn min(self, o: Sym) -> Sym { self.bin(b'm', o) }
    #[track_caller]
    pub fn sqrt(self) -> Sym {
        let site = caller();
        if !self.is_const() && !with(|e| { let i = e.id(self); e.is_sos(i, 0) }) {
            if decide(lt(self, Sym::lit(0.0))) { abort(Stop::Domain { what: "sqrt", site }); }
        }
        with(|e| e.un("sqrt", self))
    }
    #[track_caller]
    pub fn ln(self) -> Sym {
        let site = caller();
        if !self.is_const() {
            if decide(le(self, Sym::lit(0.0))) { abort(Stop::Domain { what: "ln", site }); }
        }
        with(|e| e.un("ln", self))
    }
    pub fn exp(self) -> Sym { with(|e| e.un("exp", self)) }
    pub fn sin(self) -> Sym { with(|e| e.un("sin", self)) }
    pub fn cos(self) -> Sym { with(|e| e.un("cos", self)) }
    pub fn tan(self) -> Sym { with(|e| e.un("tan", self)) }
    pub fn sinh(self) -> Sym { with(|e| e.un("sinh", self)) }
    pub fn cosh(self) -> Sym { with(|e| e.un("cosh", self)) }
    pub fn tanh(self) -> Sym { with(|e| e.un("tanh", self)) }
    pub fn asin(self) -> Sym { with(|e| e.un("asin", self)) }
    pub fn acos(self) -> Sym { with(|e| e.un("acos", self)) }
    pub fn atan(self) -> Sym { with(|e| e.un("atan", self)) }
    pub fn atan2(self, x: Sym) -> Sym { with(|e| e.fun2("atan2", self, x)) }
    pub fn powf(self, p: Sym) -> Sym {
        // x^2 and x^1 are ordinary polynomials; anything else is an uninterpreted pow
        if let Some(CVal::R(r)) = p.const_val() {
            if r == Rat::int(2) { return self * self; }
            if r == Rat::ONE { return self; }
            if r == Rat::new(1, 2).unwrap() { return self.sqrt(); }
        }
        with(|e| e.fun2("pow", self, p))
    }
    pub fn powi(self, n: i32) -> Sym {
        let mut r = Sym::lit(1.0);
        for _ in 0..n.abs() { r = r * self; }
        if n < 0 { Sym::lit(1.0) / r } else { r }
    }
    pub fn mul_add(self, a: Sym, b: Sym) -> Sym { self * a + b }
    /// integer-valued helpers exist for constants only; on a symbolic value the harness cannot follow (exit 2, never a pass)
    fn const_f(self, what: &str) -> f64 { match self.to_f64() { Some(x) if self.is_const() => x, _ => abort(Stop::Budget(format!("{} of a symbolic value is not modelled", what))) } }
    pub fn fract(self) -> Sym { Sym::lit(self.const_f("fract").fract()) }
    pub fn floor(self) -> Sym { Sym::lit(self.const_f("floor").floor()) }
    pub fn ceil(self) -> Sym { Sym::lit(self.const_f("ceil").ceil()) }
    pub fn round(self) -> Sym { Sym::lit(self.const_f("round").round()) }
    pub fn trunc(self) -> Sym { Sym::lit(self.const_f("trunc").trunc()) }
    pub fn to_degrees(self) -> Sym { self * Sym::lit(180.0) / Sym::lit(std::f64::consts::PI) }
    pub fn to_radians(self) -> Sym { self * Sym::lit(std::f64::consts::PI) / Sym::lit(180.0) }
    pub fn clamp(self, lo: Sym, hi: Sym) -> Sym { self.max(lo).min(hi) }
    pub fn copysign(self, s: Sym) -> Sym { if decide(lt(s, Sym::lit(0.0))) { -self.abs() } else { self.abs() } }
    pub fn is_sign_negative(self) -> bool { decide(lt(self, Sym::lit(0.0))) }
    pub fn is_sign_positive(self) -> bool { !decide(lt(self, Sym::lit(0.0))) }
    pub fn exp2(self) -> Sym { (self * Sym::lit(std::f64::consts::LN_2)).exp() }
    pub fn log10(self) -> Sym { self.ln() / Sym::lit(std::f64::consts::LN_10) }
    pub fn log2(self) -> Sym { self.ln() / Sym::lit(std::f64::consts::LN_2) }
    pub fn log(self, b: Sym) -> Sym { self.ln() / b.ln() }
    pub fn cbrt(self) -> Sym { with(|e| e.fun2("pow", self, Sym::lit(1.0 / 3.0))) }
    pub fn total_cmp(&self, o: &Sym) -> std::cmp::Ordering { self.partial_cmp(o).unwrap_or(std::cmp::Ordering::Equal) }
    pub fn recip(self) -> Sym { Sym::lit(1.0) / self }
    pub fn hypot(self, o: Sym) -> Sym { (self * self + o * o).sqrt() }
    pub fn signum(self) -> Sym { if decide(lt(self, Sym::lit(0.0))) { Sym::lit(-1.0) } else { Sym::lit(1.0) } }
    pub fn is_nan(self) -> bool { match self.const_val() { Some(CVal::F(x)) => x.is_nan(), _ => false } }
    pub fn is_finite(self) -> bool { match self.const_val() { Some(CVal::F(x)) => x.is_finite(), _ => true } }
    pub fn is_infinite(self) -> bool { match self.const_val() { Some(CVal::F(x)) => x.is_infinite(), _ => false } }
    pub fn to_f64(self) -> Option<f64> { self.const_val().map(cv_f) }
    /// Does the term DAG of this value contain a variable whose name starts with `prefix`?
    pub fn mentions(self, prefix: &str) -> bool {
        with(|e| {
            if self.node == LIT { return false; }
            let mut seen = BTreeSet::new();
            let mut stack = vec![self.node];
            while let Some(i) = stack.pop() {
                if !seen.insert(i) { continue; }
                match &e.nodes[i as usize] {
                    Node::Var(n) => { if n.starts_with(prefix) { return true; } }
                    Node::Add(a, b) | Node::Sub(a, b) | Node::Mul(a, b) | Node::Div(a, b) | Node::Max(a, b) | Node::Min(a, b) | Node::Fun2(_, a, b) => { stack.push(*a); stack.push(*b); }
                    Node::Neg(a) | Node::Abs(a) | Node::Sqrt(a) | Node::Fun1(_, a) => stack.push(*a),
                    _ => {}
                }
            }
            false
        })
    }
    pub fn show(self) -> String { with(|e| { let i = e.id(self); show_node(e, i, 0) }) }
}

fn show_node(e: &Engine, i: u32, depth: usize) -> String {
    if depth > 6 { return format!("n{}", i); }
    match &e.nodes[i as usize] {
        Node::Var(n) => n.clone(),
        Node::Const(r) => r.show(),
        Node::FConst(b) => format!("{:?}", f64::from_bits(*b)),
        Node::Add(a, b) => format!("({} + {})", show_node(e, *a, depth + 1), show_node(e, *b, depth + 1)),
        Node::Sub(a, b) => format!("({} - {})", show_node(e, *a, depth + 1), show_node(e, *b, depth + 1)),
        Node::Mul(a, b) => format!("({} * {})", show_node(e, *a, depth + 1), show_node(e, *b, depth + 1)),
        Node::Div(a, b) => format!("({} / {})", show_node(e, *a, depth + 1), show_node(e, *b, depth + 1)),
        Node::Neg(a) => format!("-{}", show_node(e, *a, depth + 1)),
        Node::Abs(a) => format!("|{}|", show_node(e, *a, depth + 1)),
        Node::Max(a, b) => format!("max({}, {})", show_node(e, *a, depth + 1), show_node(e, *b, depth + 1)),
        Node::Min(a, b) => format!("min({}, {})", show_node(e, *a, depth + 1), show_node(e, *b, depth + 1)),
        Node::Sqrt(a) => format!("sqrt({})", show_node(e, *a, depth + 1)),
        Node::Fun1(f, a) => format!("{}({})", f, show_node(e, *a, depth + 1)),
        Node::Fun2(f, a, b) => format!("{}({}, {})", f, show_node(e, *a, depth + 1), show_node(e, *b, depth + 1)),
        Node::Fresh(k) => format!("fresh{}", k),
    }
}

pub trait CastF64 { fn cast_f64(self) -> f64; }
macro_rules! castf64 { ($($t:ty)*) => { $( impl CastF64 for $t { fn cast_f64(self) -> f64 { self as f64 } } )* } }
castf64!(usize isize u8 u16 u32 u64 i8 i16 i32 i64 f32 f64);

impl std::str::FromStr for Sym {
    type Err = std::num::ParseFloatError;
    fn from_str(s: &str) -> Result<Sym, Self::Err> { s.parse::<f64>().map(Sym::lit) }
}

#[track_caller]
fn caller() -> String {
    let l = std::panic::Location::caller();
    format!("{}:{}", l.file(), l.line())
}

macro_rules! binop {
    ($tr:ident, $f:ident, $op:expr) => {
        impl std::ops::$tr for Sym {
            type Output = Sym;
            #[inline]
            fn $f(self, o: Sym) -> Sym { self.bin($op, o) }
        }
    };
}
binop!(Add, add, b'+');
binop!(Sub, sub, b'-');
binop!(Mul, mul, b'*');

impl std::ops::Div for Sym {
    type Output = Sym;
    #[track_caller]
    fn div(self, o: Sym) -> Sym {
        let site = caller();
        check_divisor(o, site.clone());
        log_div(&site, self, o);
        self.bin(b'/', o)
    }
}

/// Divisions executed so far on this path: (library site, numerator, divisor).
pub fn divisions() -> Vec<(String, Sym, Sym)> {
    with(|e| e.div_log.iter().map(|(s, a, b)| (s.clone(), Sym { node: *a, lit: 0.0 }, Sym { node: *b, lit: 0.0 })).collect())
}

fn log_div(site: &str, a: Sym, b: Sym) {
    with(|e| { let (x, y) = (e.id(a), e.id(b)); e.div_log.push((site.to_string(), x, y)); });
}

fn check_divisor(o: Sym, site: String) {
    match o.const_val() {
        Some(CVal::R(r)) => { if r.is_zero() { abort(Stop::DivZero { site }); } }
        Some(CVal::F(x)) => { if x == 0.0 && !with(|e| e.cfg.float) { abort(Stop::DivZero { site }); } }
        None => { if decide(eq(o, Sym::lit(0.0))) { abort(Stop::DivZero { site }); } }
    }
}

impl std::ops::Neg for Sym {
    type Output = Sym;
    fn neg(self) -> Sym { with(|e| e.neg(self)) }
}
impl std::ops::AddAssign for Sym { fn add_assign(&mut self, o: Sym) { *self = *self + o; } }
impl std::ops::SubAssign for Sym { fn sub_assign(&mut self, o: Sym) { *self = *self - o; } }
impl std::ops::MulAssign for Sym { fn mul_assign(&mut self, o: Sym) { *self = *self * o; } }
impl std::ops::DivAssign for Sym {
    #[track_caller]
    fn div_assign(&mut self, o: Sym) {
        let site = caller();
        check_divisor(o, site.clone());
        log_div(&site, *self, o);
        *self = self.bin(b'/', o);
    }
}

/// integer casts `x as usize` etc. are routed through this by retype.py (identity for primitives)
pub trait CastInt<T> { fn cast_int(self) -> T; }
macro_rules! castint_prim { ($($from:ty),* => $($to:ty),*) => { castint_prim!(@outer [$($from),*] [$($to),*]); };
    (@outer [$($from:ty),*] $tos:tt) => { $( castint_prim!(@inner $from $tos); )* };
    (@inner $from:ty [$($to:ty),*]) => { $( impl CastInt<$to> for $from { #[inline] fn cast_int(self) -> $to { self as $to } } )* }; }
castint_prim!(usize, isize, u8, u16, u32, u64, i8, i16, i32, i64, f32, f64 => usize, isize, u32, u64, i32, i64);
macro_rules! castint_sym { ($($to:ty),*) => { $( impl CastInt<$to> for Sym { fn cast_int(self) -> $to { self.const_f("integer cast") as $to } } )* } }
castint_sym!(usize, isize, u32, u64, i32, i64);
pub fn cast_int<T, S: CastInt<T>>(x: S) -> T { x.cast_int() }

impl From<f64> for Sym { fn from(x: f64) -> Sym { Sym::lit(x) } }
impl From<i32> for Sym { fn from(x: i32) -> Sym { Sym::lit(x as f64) } }
impl std::iter::Sum for Sym { fn sum<I: Iterator<Item = Sym>>(it: I) -> Sym { it.fold(Sym::lit(0.0), |a, b| a + b) } }
impl<'a> std::iter::Sum<&'a Sym> for Sym { fn sum<I: Iterator<Item = &'a Sym>>(it: I) -> Sym { it.fold(Sym::lit(0.0), |a, b| a + *b) } }
impl std::iter::Product for Sym { fn product<I: Iterator<Item = Sym>>(it: I) -> Sym { it.fold(Sym::lit(1.0), |a, b| a * b) } }
impl std::ops::Rem for Sym { type Output = Sym; fn rem(self, o: Sym) -> Sym { Sym::lit(self.const_f("%") % o.const_f("%")) } }
macro_rules! mixed_ops { ($tr:ident, $f:ident) => {
    impl std::ops::$tr<f64> for Sym { type Output = Sym; #[track_caller] fn $f(self, o: f64) -> Sym { std::ops::$tr::$f(self, Sym::lit(o)) } }
    impl std::ops::$tr<Sym> for f64 { type Output = Sym; #[track_caller] fn $f(self, o: Sym) -> Sym { std::ops::$tr::$f(Sym::lit(self), o) } }
} }
mixed_ops!(Add, add); mixed_ops!(Sub, sub); mixed_ops!(Mul, mul); mixed_ops!(Div, div);
impl PartialEq<f64> for Sym { fn eq(&self, o: &f64) -> bool { *self == Sym::lit(*o) } }
impl PartialOrd<f64> for Sym { fn partial_cmp(&self, o: &f64) -> Option<std::cmp::Ordering> { self.partial_cmp(&Sym::lit(*o)) } }

impl PartialEq for Sym {
    #[track_caller]
    fn eq(&self, o: &Sym) -> bool { decide_at(eq(*self, *o), Some(caller())) }
    #[track_caller]
    fn ne(&self, o: &Sym) -> bool { !decide_at(eq(*self, *o), Some(caller())) }
}
impl Eq for Sym {}
impl PartialOrd for Sym {
    fn partial_cmp(&self, o: &Sym) -> Option<std::cmp::Ordering> {
        if self.is_nan() || o.is_nan() { return None; }
        if decide(lt(*self, *o)) { Some(std::cmp::Ordering::Less) }
        else if decide(eq(*self, *o)) { Some(std::cmp::Ordering::Equal) }
        else { Some(std::cmp::Ordering::Greater) }
    }
    fn lt(&self, o: &Sym) -> bool { decide(lt(*self, *o)) }
    // (every comparison with NaN is false, so <= and >= cannot be written as negated < there)
    fn le(&self, o: &Sym) -> bool { if self.is_nan() || o.is_nan() { false } else { !decide(lt(*o, *self)) } }
    fn gt(&self, o: &Sym) -> bool { decide(lt(*o, *self)) }
    fn ge(&self, o: &Sym) -> bool { if self.is_nan() || o.is_nan() { false } else { !decide(lt(*self, *o)) } }
}
impl Ord for Sym {
    fn cmp(&self, o: &Sym) -> std::cmp::Ordering { self.partial_cmp(o).unwrap_or(std::cmp::Ordering::Equal) }
}
impl Default for Sym { fn default() -> Sym { Sym::lit(0.0) } }
impl fmt::Debug for Sym { fn fmt(&self, f: &mut fmt::Formatter<'_>) -> fmt::Result { write!(f, "{}", self.show()) } }
impl fmt::Display for Sym { fn fmt(&self, f: &mut fmt::Formatter<'_>) -> fmt::Result { write!(f, "{}", self.show()) } }

impl crate::traits::Zero for Sym { fn zero() -> Sym { Sym::lit(0.0) } }
impl crate::traits::One for Sym { fn one() -> Sym { Sym::lit(1.0) } }
impl crate::traits::Number for Sym {}
impl crate::traits::Signed for Sym { fn abs(&self) -> Sym { Sym::abs(*self) } }

// ---------------------------------------------------------------------------
// Decisions, assumptions, obligations
// ---------------------------------------------------------------------------

/// One data-dependent branch of the code under test.
pub fn decide(atom: B) -> bool { decide_at(atom, None) }

/// Equalities that were taken as true on this path only because the solver showed the
/// other side infeasible OVER THE REALS (the code relies on an exact cancellation there).
pub fn implied_equalities() -> Vec<(String, B, Vec<B>)> { with(|e| e.path_implied.clone()) }

thread_local! { static FENCE: std::cell::RefCell<Option<Box<dyn Fn() -> bool>>> = std::cell::RefCell::new(None); }

/// Install (or clear) a fence: a predicate over harness-owned state that is evaluated at EVERY decision of the
/// library code (constant or not, symbolic or concrete mode alike); when it holds the call unwinds with `Stop::Fence`.
pub fn set_fence(f: Option<Box<dyn Fn() -> bool>>) { FENCE.with(|c| *c.borrow_mut() = f); }

pub fn decide_at(atom: B, site: Option<String>) -> bool {
    if FENCE.with(|c| c.borrow().as_ref().map_or(false, |g| g())) { abort(Stop::Fence); }
    // constant?
    let (konst, forced) = with(|e| {
        let k = e.eval_b(&atom);
        if k.is_some() { return (k, None); }
        if e.concrete.is_some() {
            return (None, Some(None));
        }
        let i = e.trace.len();
        if i < e.forced.len() { (None, Some(Some(e.forced[i]))) } else { (None, None) }
    });
    if let Some(k) = konst { return k; }
    if let Some(None) = forced {
        abort(Stop::Budget("undetermined decision in concrete mode".into()));
    }
    let mut implied = false;
    let take = if let Some(Some(f)) = forced { implied = f & 2 != 0; f & 1 != 0 } else {
        // syntactic shortcut: atom or its negation already in the PC
        let neg = atom.clone().not();
        let known = with(|e| {
            if e.pc.iter().any(|b| *b == atom) { Some(true) }
            else if e.pc.iter().any(|b| *b == neg) { Some(false) }
            else { None }
        });
        if let Some(k) = known { k } else {
            let (t_ok, f_ok) = with(|e| {
                let to = e.cfg.decide_timeout_ms;
                let pc: Vec<B> = e.pc.clone();
                let mut v: Vec<&B> = pc.iter().collect();
                v.push(&atom);
                // numeric shortcut: a branch that holds with margin at some sample point is feasible
                let tn = e.numeric_feasible(&v);
                let mut vneg: Vec<&B> = pc.iter().collect();
                vneg.push(&neg);
                let fnum = e.numeric_feasible(&vneg);
                if tn && fnum { return (true, true); }
                if !tn {
                    let (vt, _) = e.check(&v, false, to, false, None);
                    if vt == Verdict::Unsat { return (false, true); }
                }
                if fnum { return (true, true); }
                let (vf, _) = e.check(&v, true, to, false, None);
                (true, vf != Verdict::Unsat)
            });
            if t_ok && f_ok {
                with(|e| {
                    let mut p = e.trace.clone();
                    p.push(0);
                    e.worklist.push(p);
                    e.stats.forks += 1;
                });
                true
            } else {
                implied = true;
                t_ok
            }
        }
    };
    with(|e| {
        e.stats.decisions += 1;
        if take && implied && matches!(atom, B::Eq(..)) {
            let snap = e.pc.clone();
            e.path_implied.push((site.clone().unwrap_or_default(), atom.clone(), snap));
        }
        e.trace.push((take as u8) | if implied { 2 } else { 0 });
        let lit = if take { atom } else { atom.not() };
        if !e.pc.contains(&lit) { e.pc.push(lit); }
    });
    take
}

/// Add a hypothesis to the current path.
pub fn assume(b: B) {
    let r = with(|e| {
        match e.eval_b(&b) {
            Some(true) => return true,
            Some(false) => return false,
            None => {}
        }
        if e.concrete.is_some() { return false; }
        if !e.pc.contains(&b) { e.pc.push(b); }
        true
    });
    if !r { abort(Stop::Infeasible); }
}

#[derive(Clone, Copy, PartialEq, Eq, Debug)]
pub enum Proof {
    Syntactic,
    Solver,
    Undecided,
    Failed,
}

/// Obligation: `b` must hold on every input reaching this point.
pub fn prove(label: &str, b: B) -> Proof {
    with(|e| {
        e.stats.obligations += 1;
        e.path_oblig_labels.push(label.to_string());
        e.tolerant = e.concrete.is_some();
        let evaluated = e.eval_b(&b);
        e.tolerant = false;
        match evaluated {
            Some(true) => {
                if matches!(b, B::True) { e.stats.discharged_syntactic += 1; } else { e.stats.discharged_concrete_const += 1; }
                return Proof::Syntactic;
            }
            Some(false) if e.concrete.is_some() => {
                e.stats.failed += 1;
                e.concrete_failures.push(label.to_string());
                return Proof::Failed;
            }
            None if e.concrete.is_some() => {
                e.stats.undecided += 1;
                e.undecided_labels.push(format!("{} (concrete: not evaluable)", label));
                return Proof::Undecided;
            }
            // a structurally false obligation (data-movement check that failed on term identities) once eight counterexample
            // candidates exist already: counted as failed, no further model is asked for (a broken library fails thousands of
            // these and each model costs up to three solver calls)
            Some(false) if e.candidates.len() >= 8 => {
                e.stats.failed += 1;
                return Proof::Failed;
            }
            _ => {}
        }
        let pc: Vec<B> = e.pc.clone();
        // (2) algebra only
        let to = e.cfg.prove_timeout_ms;
        let alg: Vec<&B> = pc.iter().filter(|x| !x.has_order()).collect();
        let mut verdict = Verdict::Unknown;
        let mut model = None;
        {
            let mut v = alg.clone();
            v.push(&b);
            let (vd, _) = e.check(&v, true, to.min(4000), false, None);
            if vd == Verdict::Unsat { verdict = Verdict::Unsat; }
        }
        if verdict != Verdict::Unsat {
            let mut v: Vec<&B> = pc.iter().collect();
            v.push(&b);
            let (vd, m) = e.check(&v, true, to, true, None);
            verdict = vd;
            model = m;
            if vd == Verdict::Sat {
                // prefer a small-integer model for replay
                let (vi, mi) = e.check(&v, true, 2000, true, Some(6));
                if vi == Verdict::Sat && mi.is_some() { model = mi; }
            }
        }
        match verdict {
            Verdict::Unsat => {
                e.stats.discharged_solver += 1; e.path_nontrivial = true;
                if e.sample_smt.is_none() {
                    let mut v: Vec<&B> = pc.iter().collect();
                    v.push(&b);
                    let (t, _) = e.emit(&v, true, 0, None);
                    if t.len() < 6000 { e.sample_smt = Some(format!("; obligation '{}' (unsat = discharged)\n{}(check-sat)", label, t)); }
                }
                Proof::Solver
            }
            Verdict::Unknown => { e.stats.undecided += 1; e.undecided_labels.push(label.to_string()); Proof::Undecided }
            Verdict::Sat => {
                e.stats.failed += 1;
                let model = model.unwrap_or_default();
                let exact = model.values().all(|v| !v.starts_with('~'));
                e.candidates.push(Candidate { label: label.to_string(), trace: e.trace.clone(), model, exact, float: false });
                Proof::Failed
            }
        }
    })
}

impl Engine {
    /// QF_FP text for `assumptions /\ not goal` over IEEE doubles (RNE), or None if a node has no FP meaning.
    fn emit_fp(&self, bs: &[&B], negate_last: bool) -> Option<(String, Vec<u32>)> {
        let mut roots = Vec::new();
        for b in bs { b.roots(&mut roots); }
        let mut seen: BTreeSet<u32> = BTreeSet::new();
        let mut stack = roots;
        while let Some(i) = stack.pop() {
            if !seen.insert(i) { continue; }
            match &self.nodes[i as usize] {
                Node::Add(a, b) | Node::Sub(a, b) | Node::Mul(a, b) | Node::Div(a, b) | Node::Max(a, b) | Node::Min(a, b) => { stack.push(*a); stack.push(*b); }
                Node::Neg(a) | Node::Abs(a) | Node::Sqrt(a) => stack.push(*a),
                Node::Fun1(..) | Node::Fun2(..) => return None,
                _ => {}
            }
        }
        let fpc = |x: f64| -> String {
            let b = x.to_bits();
            format!("(fp #b{} #b{:011b} #b{:052b})", b >> 63, (b >> 52) & 0x7ff, b & 0x000f_ffff_ffff_ffff)
        };
        let nm = |i: u32| -> String {
            match &self.nodes[i as usize] {
                Node::Const(r) => fpc(r.to_f64()),
                Node::FConst(b) => fpc(f64::from_bits(*b)),
                Node::Var(_) => format!("v{}", i),
                _ => format!("n{}", i),
            }
        };
        let mut s = String::from("(set-logic QF_FP)\n(set-option :produce-models true)\n(define-sort F () (_ FloatingPoint 11 53))\n");
        let mut vars = Vec::new();
        for &i in &seen {
            match &self.nodes[i as usize] {
                Node::Var(name) => {
                    s.push_str(&format!("(declare-const v{} F) ; {}\n(assert (not (fp.isNaN v{})))\n(assert (not (fp.isInfinite v{})))\n", i, name, i, i));
                    vars.push(i);
                }
                Node::Fresh(_) => { s.push_str(&format!("(declare-const n{} F)\n", i)); }
                Node::Const(_) | Node::FConst(_) => {}
                Node::Add(a, b) => s.push_str(&format!("(define-fun n{} () F (fp.add RNE {} {}))\n", i, nm(*a), nm(*b))),
                Node::Sub(a, b) => s.push_str(&format!("(define-fun n{} () F (fp.sub RNE {} {}))\n", i, nm(*a), nm(*b))),
                Node::Mul(a, b) => s.push_str(&format!("(define-fun n{} () F (fp.mul RNE {} {}))\n", i, nm(*a), nm(*b))),
                Node::Div(a, b) => s.push_str(&format!("(define-fun n{} () F (fp.div RNE {} {}))\n", i, nm(*a), nm(*b))),
                Node::Neg(a) => s.push_str(&format!("(define-fun n{} () F (fp.neg {}))\n", i, nm(*a))),
                Node::Abs(a) => s.push_str(&format!("(define-fun n{} () F (fp.abs {}))\n", i, nm(*a))),
                Node::Max(a, b) => s.push_str(&format!("(define-fun n{} () F (fp.max {} {}))\n", i, nm(*a), nm(*b))),
                Node::Min(a, b) => s.push_str(&format!("(define-fun n{} () F (fp.min {} {}))\n", i, nm(*a), nm(*b))),
                Node::Sqrt(a) => s.push_str(&format!("(define-fun n{} () F (fp.sqrt RNE {}))\n", i, nm(*a))),
                Node::Fun1(..) | Node::Fun2(..) => return None,
            }
        }
        fn fb(e: &Engine, b: &B, nm: &dyn Fn(u32) -> String) -> String {
            match b {
                B::True => "true".into(),
                B::False => "false".into(),
                B::Lt(x, y) => format!("(fp.lt {} {})", nm(*x), nm(*y)),
                B::Le(x, y) => format!("(fp.leq {} {})", nm(*x), nm(*y)),
                B::Eq(x, y) => format!("(fp.eq {} {})", nm(*x), nm(*y)),
                B::Not(x) => format!("(not {})", fb(e, x, nm)),
                B::And(v) => if v.is_empty() { "true".into() } else { format!("(and {})", v.iter().map(|x| fb(e, x, nm)).collect::<Vec<_>>().join(" ")) },
                B::Or(v) => if v.is_empty() { "false".into() } else { format!("(or {})", v.iter().map(|x| fb(e, x, nm)).collect::<Vec<_>>().join(" ")) },
            }
        }
        let n = bs.len();
        for (k, b) in bs.iter().enumerate() {
            let t = fb(self, b, &nm);
            if negate_last && k + 1 == n { s.push_str(&format!("(assert (not {}))\n", t)); } else { s.push_str(&format!("(assert {})\n", t)); }
        }
        s.push_str("(check-sat)\n");
        if !vars.is_empty() {
            s.push_str(&format!("(get-value ({}))\n", vars.iter().map(|v| format!("v{}", v)).collect::<Vec<_>>().join(" ")));
        }
        Some((s, vars))
    }

    fn check_fp(&mut self, text: &str) -> (Verdict, Option<BTreeMap<String, String>>) {
        if let Some((v, m)) = self.memo.get(text) { self.stats.q_memo += 1; return (*v, m.clone()); }
        let t0 = Instant::now();
        let dir = std::env::var("VERIF_TMP").unwrap_or_else(|_| std::env::temp_dir().join("verif-fp").to_string_lossy().to_string());
        let _ = std::fs::create_dir_all(&dir);
        let path = format!("{}/fp-{}-{}.smt2", dir, std::process::id(), self.stats.q_sat + self.stats.q_unsat + self.stats.q_unknown);
        let mut verdict = Verdict::Unknown;
        let mut model = None;
        if std::fs::write(&path, text).is_ok() {
            let out = Command::new(&self.cfg.cvc5).arg("--lang").arg("smt2").arg(format!("--tlimit={}", self.cfg.fp_timeout_ms)).arg(&path).output();
            if let Ok(o) = out {
                let txt = String::from_utf8_lossy(&o.stdout).to_string();
                let first = txt.lines().next().unwrap_or("").trim().to_string();
                if std::env::var("VERIF_DEBUG").is_ok() && (txt.contains("(error") || !o.stderr.is_empty()) { eprintln!("cvc5: {} {}", txt, String::from_utf8_lossy(&o.stderr)); }
                // an `(error` before the verdict makes the answer inconclusive; the one after an
                // `unsat` is only get-value complaining that there is no model
                if first == "unsat" { verdict = Verdict::Unsat; }
                else if first == "sat" && !txt.contains("(error") { verdict = Verdict::Sat; }
                if verdict == Verdict::Sat {
                    let rest: String = txt.lines().skip(1).collect::<Vec<_>>().join(" ");
                    let mut m = BTreeMap::new();
                    // ((v3 (fp #b0 #b10000000000 #b000...)) ...)
                    let toks: Vec<&str> = rest.split(|c: char| c.is_whitespace() || c == '(' || c == ')').filter(|t| !t.is_empty()).collect();
                    let mut k = 0;
                    while k < toks.len() {
                        if toks[k].starts_with('v') && k + 4 < toks.len() && toks[k + 1] == "fp" {
                            let bits = format!("{}{}{}", &toks[k + 2][2..], &toks[k + 3][2..], &toks[k + 4][2..]);
                            if let (Ok(id), Ok(b)) = (toks[k][1..].parse::<u32>(), u64::from_str_radix(&bits, 2)) {
                                if let Some(name) = self.var_names.get(&id) { m.insert(name.clone(), format!("bits:{:016x}", b)); }
                            }
                            k += 5;
                        } else { k += 1; }
                    }
                    model = Some(m);
                }
            }
            let _ = std::fs::remove_file(&path);
        }
        self.stats.solver_s += t0.elapsed().as_secs_f64();
        match verdict { Verdict::Sat => self.stats.q_sat += 1, Verdict::Unsat => self.stats.q_unsat += 1, Verdict::Unknown => self.stats.q_unknown += 1 }
        self.memo.insert(text.to_string(), (verdict, model.clone()));
        (verdict, model)
    }
}

/// Obligation over IEEE-754 doubles (bit-precise, RNE, evaluation order of the source):
/// `assumptions => goal` for all finite double values of the variables.  Decided by cvc5 (QF_FP).
pub fn prove_fp(label: &str, assumptions: &[B], goal: B) -> Proof {
    with(|e| {
        e.stats.obligations += 1;
        e.path_oblig_labels.push(label.to_string());
        if e.concrete.is_some() {
            // concrete replay: the goal is evaluated on the actual doubles (bit-exact comparison); inputs outside
            // the stated domain do not count
            let in_dom = assumptions.iter().all(|a| e.eval_b(a) != Some(false));
            if in_dom && e.cfg.float && e.eval_b(&goal) == Some(false) { e.stats.failed += 1; e.concrete_failures.push(label.to_string()); return Proof::Failed; }
            e.stats.discharged_concrete_const += 1;
            return Proof::Syntactic;
        }
        let mut v: Vec<&B> = assumptions.iter().collect();
        v.push(&goal);
        let text = match e.emit_fp(&v, true) { Some((t, _)) => t, None => { e.stats.undecided += 1; e.undecided_labels.push(format!("{} (no FP encoding)", label)); return Proof::Undecided; } };
        let (vd, m) = e.check_fp(&text);
        match vd {
            Verdict::Unsat => { e.stats.discharged_solver += 1; e.path_nontrivial = true; Proof::Solver }
            Verdict::Unknown => { e.stats.undecided += 1; e.undecided_labels.push(label.to_string()); Proof::Undecided }
            Verdict::Sat => {
                e.stats.failed += 1;
                if !e.candidates.iter().any(|c| c.label == label && c.float) {
                    e.candidates.push(Candidate { label: label.to_string(), trace: e.trace.clone(), model: m.unwrap_or_default(), exact: true, float: true });
                }
                Proof::Failed
            }
        }
    })
}

pub fn is_float() -> bool { with(|e| e.cfg.float) }

/// Contract stub for a complex function of one complex argument (derived crate only; the call is
/// inserted by retype.py at the top of the function body).  When the stub `name` is in force the
/// function result is a pair of opaque reals determined by the argument terms, constrained only by
/// the function's contract (which C14 decides for the real body).  Returns None otherwise.
pub fn stub_complex1(name: &str, re: Sym, im: Sym) -> Option<(Sym, Sym)> {
    let on = with(|e| e.concrete.is_none() && e.cfg.stubs.iter().any(|s| s == name));
    if !on { return None; }
    let (ri, ii) = (re.id(), im.id());
    let u = Sym::var(&format!("{}(n{},n{}).re", name, ri, ii));
    let v = Sym::var(&format!("{}(n{},n{}).im", name, ri, ii));
    let z = Sym::lit(0.0);
    match name {
        "csqrt" => {
            // principal square root: w^2 = z, Re w >= 0, and Im w >= 0 on the negative real axis
            assume(eq(u * u - v * v, re));
            assume(eq(Sym::lit(2.0) * u * v, im));
            assume(le(z, u));
            // On the cut (negative real argument) the f64 routine returns +i sqrt|x| or -i sqrt|x| according to the SIGN OF THE
            // ZERO imaginary part of its argument, which rounding decides and real arithmetic cannot see.  A caller that is to be
            // correct in f64 must not depend on it: with "csqrt_signed_zero" in force the stub leaves that sign open.
            let open_cut = with(|e| e.cfg.stubs.iter().any(|s| s == "csqrt_signed_zero"));
            if !open_cut { assume(B::implies(eq(u, z), le(z, v))); }
        }
        "ccbrt" => {
            // some cube root: w^3 = z
            assume(eq(u * u * u - Sym::lit(3.0) * u * v * v, re));
            assume(eq(Sym::lit(3.0) * u * u * v - v * v * v, im));
        }
        _ => return None,
    }
    with(|e| { let ids = (e.id(re), e.id(im), e.id(u), e.id(v)); e.stub_log.push((name.to_string(), ids.0, ids.1, ids.2, ids.3)); });
    Some((u, v))
}

/// Contract stub for an iterative polynomial root finder (Laguerre): when the stub `name` is in force the call returns an
/// opaque complex number constrained only by the routine's contract - it is a root of the polynomial it was given
/// (coefficients in ascending order) - and by the convention that its imaginary part is exactly zero or not tiny
/// (|Im| > 2 eps |Re|), so that the caller's "snap to the real axis" test does not perturb it.
pub fn stub_poly_root(name: &str, coeffs: &[(Sym, Sym)]) -> Option<(Sym, Sym)> {
    let on = with(|e| e.concrete.is_none() && e.cfg.stubs.iter().any(|s| s == name));
    if !on { return None; }
    let k = with(|e| e.poly_stub_log.len());
    let u = Sym::var(&format!("{}#{}.re", name, k));
    let v = Sym::var(&format!("{}#{}.im", name, k));
    // Horner over (re, im) pairs
    let (mut pr, mut pi) = (Sym::lit(0.0), Sym::lit(0.0));
    for (cr, ci) in coeffs.iter().rev() {
        let (nr, ni) = (pr * u - pi * v + *cr, pr * v + pi * u + *ci);
        pr = nr; pi = ni;
    }
    assume(eq(pr, Sym::lit(0.0)));
    assume(eq(pi, Sym::lit(0.0)));
    let tiny = Sym::lit(2.0) * Sym::lit(f64::EPSILON) * u.abs();
    assume(B::or(vec![eq(v, Sym::lit(0.0)), lt(tiny, v.abs())]));
    with(|e| { let cs: Vec<(u32, u32)> = coeffs.iter().map(|(a, b)| (e.id(*a), e.id(*b))).collect(); let (ui, vi) = (e.id(u), e.id(v)); e.poly_stub_log.push((cs, ui, vi)); });
    Some((u, v))
}

/// Root-finder stub applications on this path: (coefficients handed over, returned root).
pub fn poly_stub_calls() -> Vec<(Vec<(Sym, Sym)>, Sym, Sym)> {
    with(|e| e.poly_stub_log.iter().map(|(cs, u, v)| (cs.iter().map(|(a, b)| (Sym::from_id(*a), Sym::from_id(*b))).collect(), Sym::from_id(*u), Sym::from_id(*v))).collect())
}

/// Stub applications made so far on this path: (name, argument re/im, result re/im).
pub fn stub_calls() -> Vec<(String, Sym, Sym, Sym, Sym)> {
    with(|e| e.stub_log.iter().map(|(n, a, b, c, d)| (n.clone(), Sym::from_id(*a), Sym::from_id(*b), Sym::from_id(*c), Sym::from_id(*d))).collect())
}

/// Complex power with a constant exponent: only z^(1/3) is stubbed (contract: result^3 = z).
pub fn stub_complex_pow(re: Sym, im: Sym, wre: Sym, wim: Sym) -> Option<(Sym, Sym)> {
    let third = matches!((wre.const_val(), wim.const_val()), (Some(CVal::R(a)), Some(CVal::R(b))) if a == Rat::new(1, 3).unwrap() && b.is_zero());
    if third { stub_complex1("ccbrt", re, im) } else { None }
}

/// A closed lemma over fresh values: decided on its own, without the path condition of the current path.
pub fn prove_closed(label: &str, b: B) -> Proof {
    let saved = with(|e| std::mem::take(&mut e.pc));
    let r = prove(label, b);
    with(|e| e.pc = saved);
    r
}

/// Obligation that is discharged when both sides are the same arena node, and
/// handed to the solver otherwise.
pub fn prove_eq(label: &str, a: Sym, b: Sym) -> Proof {
    if a.id() == b.id() {
        with(|e| { e.stats.obligations += 1; e.stats.discharged_syntactic += 1; e.path_oblig_labels.push(label.to_string()); });
        return Proof::Syntactic;
    }
    prove(label, eq(a, b))
}

/// Count one distinct structural case (shape/pattern/operation) handled inside a path.
pub fn count_case() { with(|e| e.stats.cases += 1); }

/// Cheap obligation for data-movement checks: `cond` was evaluated by the harness on
/// term identities / concrete indices.  A false condition becomes a failed obligation
/// (label built lazily) that goes through the normal candidate/replay route.
pub fn check_that(cond: bool, label: impl FnOnce() -> String) -> bool {
    if cond {
        with(|e| { e.stats.obligations += 1; e.stats.discharged_syntactic += 1; });
        true
    } else {
        prove(&label(), B::False);
        false
    }
}

/// Vacuity control: `b` is false for some input on this path, i.e. `PC /\ not b` must be sat.
pub fn control(label: &str, b: B) {
    with(|e| {
        e.stats.controls += 1;
        if e.concrete.is_some() { e.stats.controls_ok += 1; return; }
        let pc: Vec<B> = e.pc.clone();
        let mut v: Vec<&B> = pc.iter().collect();
        v.push(&b);
        let to = e.cfg.decide_timeout_ms;
        // a sample point at which the path condition holds and the control fails (with margin) is witness enough
        let nb = b.clone().not();
        let mut vn: Vec<&B> = pc.iter().collect();
        vn.push(&nb);
        if e.numeric_feasible(&vn) { e.stats.controls_ok += 1; return; }
        let (vd, _) = e.check(&v, true, to, false, None);
        if vd == Verdict::Sat { e.stats.controls_ok += 1; } else {
            // a path whose own condition is unsatisfiable was entered only because a feasibility
            // query timed out: it is an infeasible path (vacuous, harmless), not a vacuous harness
            let pcv: Vec<&B> = pc.iter().collect();
            let (vp, _) = e.check(&pcv, false, to, false, None);
            if vp == Verdict::Unsat { e.stats.controls -= 1; e.stats.paths_pruned += 1; e.notes.push(format!("path {:?} entered on an undecided feasibility query is infeasible", e.trace)); }
            else if vp == Verdict::Unknown { e.stats.controls -= 1; e.notes.push(format!("path {:?}: feasibility of the path condition itself is undecided (path kept, its obligations are still checked)", e.trace)); }
            else if vd == Verdict::Unknown { e.stats.controls -= 1; e.notes.push(format!("path {:?}: control '{}' undecided by the solver (path condition satisfiable); not counted", e.trace, label)); }
            else { e.control_failures.push(format!("{}: {:?}", label, vd)); }
        }
    })
}

/// Is the current path condition satisfiable?  (Sat also yields a sample input.)
pub fn path_feasible() -> Verdict {
    with(|e| {
        if e.concrete.is_some() { return Verdict::Sat; }
        let pc: Vec<B> = e.pc.clone();
        let v: Vec<&B> = pc.iter().collect();
        if let Some(asg) = e.numeric_model(&v) {
            if e.samples.len() < e.cfg.keep_samples {
                let mut txt: Vec<String> = asg.iter().filter_map(|(k, x)| e.var_names.get(k).map(|n| format!("{}={}", n, x))).collect();
                txt.sort();
                e.samples.push(format!("path {:?}: {}", e.trace, txt.join(" ")));
            }
            return Verdict::Sat;
        }
        let to = e.cfg.decide_timeout_ms.min(3000);
        let (vd, m) = e.check(&v, false, to, true, None);
        if vd == Verdict::Sat && e.samples.len() < e.cfg.keep_samples {
            if let Some(m) = m {
                let txt = m.iter().map(|(k, v)| format!("{}={}", k, v)).collect::<Vec<_>>().join(" ");
                e.samples.push(format!("path {:?}: {}", e.trace, txt));
            }
        }
        vd
    })
}

pub fn note(s: String) { with(|e| if e.notes.len() < 50 { e.notes.push(s) }); }

/// Run library code; panics and symbolic aborts become values.
pub fn catch<R>(f: impl FnOnce() -> R) -> Result<R, Stop> {
    IN_CATCH.with(|c| *c.borrow_mut() += 1);
    let r = panic::catch_unwind(AssertUnwindSafe(f));
    IN_CATCH.with(|c| *c.borrow_mut() -= 1);
    match r {
        Ok(v) => Ok(v),
        Err(p) => {
            if let Some(a) = p.downcast_ref::<AbortPayload>() {
                match &a.0 {
                    // pruning / budget always unwinds to the explorer
                    Stop::Infeasible | Stop::Budget(_) => panic::resume_unwind(p),
                    s => Err(s.clone()),
                }
            } else {
                let (msg, loc) = with(|e| e.last_panic.take()).unwrap_or_else(|| {
                    let m = if let Some(s) = p.downcast_ref::<&str>() { s.to_string() } else if let Some(s) = p.downcast_ref::<String>() { s.clone() } else { "<non-string panic>".into() };
                    (m, String::new())
                });
                Err(Stop::Panic { msg, loc })
            }
        }
    }
}

pub fn install_panic_hook() {
    panic::set_hook(Box::new(|info| {
        let msg = if let Some(s) = info.payload().downcast_ref::<&str>() { s.to_string() } else if let Some(s) = info.payload().downcast_ref::<String>() { s.clone() } else { String::new() };
        if info.payload().downcast_ref::<AbortPayload>().is_some() { return; }
        let loc = info.location().map(|l| format!("{}:{}", l.file(), l.line())).unwrap_or_default();
        let in_catch = IN_CATCH.with(|c| *c.borrow() > 0);
        // try_lock: a panic raised while the engine lock is held must not deadlock
        if let Ok(mut g) = ENGINE.try_lock() {
            if let Some(e) = g.as_mut() { e.last_panic = Some((msg.clone(), loc.clone())); }
        }
        if !in_catch { eprintln!("harness panic: {} at {}", msg, loc); }
    }));
}

pub struct Report {
    pub sample_smt: Option<String>,
    pub var_names: Vec<String>,
    pub stats: Stats,
    pub candidates: Vec<Candidate>,
    pub control_failures: Vec<String>,
    pub undecided: Vec<String>,
    pub samples: Vec<String>,
    pub notes: Vec<String>,
    pub errors: Vec<String>,
}

/// Explore every feasible path of `body`.
pub fn explore(cfg: Config, body: &mut dyn FnMut()) -> Report {
    {
        let mut g = lock();
        *g = Some(Engine::new(cfg));
        g.as_mut().unwrap().worklist.push(Vec::new());
    }
    let mut errors = Vec::new();
    loop {
        let next = with(|e| {
            if e.stats.paths >= e.cfg.max_paths { e.stats.truncated = !e.worklist.is_empty(); return None; }
            // enough counterexample candidates: stop exploring (the instance is then reported as truncated, which only
            // matters if none of the candidates is confirmed by replay)
            if e.candidates.len() >= 8 && !e.worklist.is_empty() { e.stats.truncated = true; e.notes.push("exploration stopped early: 8 counterexample candidates collected".into()); return None; }
            e.worklist.pop()
        });
        let prefix = match next { Some(p) => p, None => break };
        with(|e| {
            e.pc.clear();
            e.trace.clear();
            e.forced = prefix;
            e.fresh = 0;
            e.path_nontrivial = false;
            e.path_oblig_labels.clear();
            e.div_log.clear();
            e.path_implied.clear();
            e.stub_log.clear();
            e.poly_stub_log.clear();
        });
        set_fence(None);
        let r = panic::catch_unwind(AssertUnwindSafe(|| body()));
        set_fence(None);
        match r {
            Ok(()) => {
                let want = with(|e| e.samples.len() < e.cfg.keep_samples);
                if want { let _ = path_feasible(); }
                with(|e| { e.stats.paths += 1; if e.path_nontrivial { e.stats.nontrivial_paths += 1; } });
            }
            Err(p) => {
                if let Some(a) = p.downcast_ref::<AbortPayload>() {
                    match &a.0 {
                        Stop::Infeasible => with(|e| e.stats.paths_pruned += 1),
                        Stop::Budget(m) => { errors.push(format!("budget: {}", m)); with(|e| e.stats.truncated = true); }
                        s => errors.push(format!("unhandled stop escaped the harness body: {:?}", s)),
                    }
                } else {
                    let m = with(|e| e.last_panic.take());
                    errors.push(format!("harness body panicked: {:?}", m));
                }
            }
        }
    }
    let mut g = lock();
    let e = g.take().unwrap();
    let var_names: Vec<String> = e.var_names.values().filter(|n| !n.contains('(') && !n.contains('#')).cloned().collect();
    Report { sample_smt: e.sample_smt, var_names, stats: e.stats, candidates: e.candidates, control_failures: e.control_failures, undecided: e.undecided_labels, samples: e.samples, notes: e.notes, errors }
}

pub struct ConcreteReport {
    pub failures: Vec<String>,
    pub labels: Vec<String>,
    pub errors: Vec<String>,
    pub notes: Vec<String>,
    pub undecided: Vec<String>,
}

/// Run `body` once with every variable bound to a concrete value (exact
/// rationals, or f64 when `float`).  `prove` then evaluates its condition.
pub fn run_concrete(mut cfg: Config, float: bool, binding: &BTreeMap<String, String>, body: &mut dyn FnMut()) -> ConcreteReport {
    cfg.float = float;
    let mut bind = BTreeMap::new();
    let mut errors = Vec::new();
    for (k, v) in binding {
        if let Some(h) = v.strip_prefix("bits:") {
            if let Ok(b) = u64::from_str_radix(h, 16) {
                let x = f64::from_bits(b);
                bind.insert(k.clone(), if float { CVal::F(x) } else { Rat::from_f64(x).map(CVal::R).unwrap_or(CVal::F(x)) });
                continue;
            }
        }
        let v = v.trim_start_matches('~');
        match Rat::parse(v) {
            Some(r) => { bind.insert(k.clone(), if float { CVal::F(r.to_f64()) } else { CVal::R(r) }); }
            None => match v.parse::<f64>() {
                Ok(x) => { bind.insert(k.clone(), if float { CVal::F(x) } else { Rat::from_f64(x).map(CVal::R).unwrap_or(CVal::F(x)) }); }
                Err(_) => errors.push(format!("unparsable value for {}: {}", k, v)),
            },
        }
    }
    {
        let mut g = lock();
        let mut e = Engine::new(cfg);
        e.concrete = Some(bind);
        *g = Some(e);
    }
    let r = panic::catch_unwind(AssertUnwindSafe(|| body()));
    if let Err(p) = r {
        if let Some(a) = p.downcast_ref::<AbortPayload>() {
            match &a.0 {
                Stop::Infeasible => errors.push("assumption violated by the concrete input".into()),
                s => errors.push(format!("stopped: {:?}", s)),
            }
        } else {
            let m = with(|e| e.last_panic.take());
            errors.push(format!("harness body panicked: {:?}", m));
        }
    }
    let mut g = lock();
    let e = g.take().unwrap();
    ConcreteReport { failures: e.concrete_failures, labels: e.path_oblig_labels, errors, notes: e.notes, undecided: e.undecided_labels }
}

/// The most recent decision of this path: (atom, value taken).
pub fn last_decision() -> Option<(B, bool)> {
    with(|e| {
        let l = e.pc.last()?.clone();
        Some(match l { B::Not(b) => (*b, false), b => (b, true) })
    })
}
/// Structure of a term (children are node ids; use `Sym::from_id`).
pub fn node_of(s: Sym) -> Node { with(|e| { let i = e.id(s); e.nodes[i as usize].clone() }) }
impl Sym { pub fn from_id(i: u32) -> Sym { Sym { node: i, lit: 0.0 } } }

/// Number of DAG nodes (for evidence).
pub fn arena_size() -> usize { with(|e| e.nodes.len()) }

/// SMT-LIB text of the query `PC /\ not b` (sample for the evidence).
pub fn sample_query(b: &B) -> String {
    with(|e| {
        let pc: Vec<B> = e.pc.clone();
        let mut v: Vec<&B> = pc.iter().collect();
        v.push(b);
        e.emit(&v, true, 0, None).0
    })
}

pub fn current_trace() -> Vec<u8> { with(|e| e.trace.clone()) }
pub fn pc_len() -> usize { with(|e| e.pc.len()) }
pub fn is_concrete() -> bool { with(|e| e.concrete.is_some()) }
